"""Per-property configuration for run.py.

stages: list of {run: test regexp, quick: (rapid checks, shards), thorough: (checks, shards), race: bool}
"""

HOOK_COMMITS = ["60a3272"]

NOT_APPLICABLE = {}

PROPS = {
    "C07": {
        "pkg": "c07",
        "stages": [{"run": "^TestProp$", "quick": (12000, 8), "thorough": (40000, 16)},
                   {"run": "^TestPropHTTPBody$", "quick": (3000, 4), "thorough": (20000, 16)}],
        "rule": "rapid draws a rule (verb x 1-2 path variables on top-level/nested string and integer fields x "
                "sub-pattern x body none/*/book) and a request whose path captures v1 while a competing v2 is sent "
                "through the query (proto or JSON key, once or twice) and/or the JSON/protobuf body; oracle: the handler's "
                "message carries v1 in every path-bound field and every other field as sent. Non-trivial = the request "
                "was delivered to the handler with >=1 competing channel; distinct = (verb, body, codec, suffix, per "
                "variable field/pattern/channels, key spelling, repetition).",
        "technique": "property-based testing (rapid): generated rule x competing-channel requests against a protojson-referee oracle",
        "level_text": "Generated-input search: thousands of (rule, request) pairs in which every path-bound field is contested "
                      "through the query and/or body; exact oracle (delivered field == path capture). Exploration only: no proof of absence.",
        "level_note": "Trusts protojson as value referee and httptest.ResponseRecorder as the transport; rules restricted to the schema in harness/c07.",
        "assumptions": [
            "requests are driven in-process through Mux.ServeHTTP with httptest.ResponseRecorder",
            "a request that larking rejects instead of delivering is not a violation of this property (counted as class 'rejected')",
            "expected values come from protojson (referee), not from larking's parseParam",
        ],
    },
    "C01": {
        "pkg": "c01",
        "stages": [{"run": "^TestProp$", "quick": (5000, 8), "thorough": (25000, 16)}],
        "technique": "property-based testing (rapid): grammar-generated rule sets x instantiated/near-miss/free paths against an independent reference template matcher",
        "level_text": "Generated-input search over rule sets and request paths; every dispatch must be explained by a rule of the "
                      "dispatched method under a reference matcher written from the google.api.http grammar. Exploration only.",
        "level_note": "Trusts harness/ref (template parser+matcher, deliberately the most permissive reading) and protojson as value referee; "
                      "paths are handed to the mux already decoded (URL.Path).",
        "rule": "rapid draws 1-6 single-method services with 1-3 bindings each (templates from the grammar: literals from a small "
                "overlapping pool, *, ** anywhere, {field}, {field=pattern}, nested and typed fields, :verb; verbs GET..PATCH/custom/*), then "
                "8-16 requests: instantiations of a template of the set with 0-2 near-miss mutations (slash<->colon, insert/delete/duplicate "
                "segment, verb suffix edits, trailing slash, altered character, other HTTP verb) or free paths. Oracle per dispatched request: "
                "some binding owned by the dispatched method carries the verb, reference-matches the path, and its captures converted "
                "(protojson referee) give exactly the received message. One evaluation = one request. Non-trivial = dispatched, or a "
                "refused single-mutation near miss; distinct = (request kind, path separator skeleton, template feature set).",
        "assumptions": [
            "a request that is not dispatched is never a C01 violation (completeness is C02)",
            "'**' may match zero or more segments anywhere in a template; ':' is ordinary text except as the final :verb of a template that declares one",
            "panics while serving are counted but reported by C09, not here",
        ],
    },
    "C02": {
        "pkg": "c02",
        "stages": [{"run": "^TestProp$", "quick": (5000, 8), "thorough": (20000, 16)}],
        "technique": "property-based testing (rapid): conflict-free generated rule sets, instantiated paths, reference matcher for the must-match set, literal-dominance oracle, and a registration-order metamorphic relation",
        "level_text": "Generated-input search; completeness and literal precedence are decided against an independent reference matcher, "
                      "order independence by a differential run of the same rule set registered in a permuted order. Exploration only.",
        "level_note": "Trusts harness/ref; '**' only generated in last position (google's restriction) so each template matches a path in at most one way; "
                      "conflicting methods are removed by construction.",
        "rule": "rapid draws a conflict-free rule set (1-6 methods x 1-3 bindings, '**' only last), a permutation of service registration "
                "order plus a rotation of each method's primary binding, and 6-12 paths instantiated from templates of the set ('*' = 1 "
                "segment, '**' = 1-4 segments over the documented path alphabet incl. single characters, pool literals and unicode; typed "
                "variables get convertible text). Oracle: W = reference-matching bindings; if W non-empty and all captures convertible the "
                "request must be dispatched to a method owning a non-dominated member of W with exactly the expected message; the permuted "
                "mux must give the identical outcome. One evaluation = one request. Non-trivial = |W|>=2, or a multi-segment capture, or a "
                "non-identity registration order; distinct = (|W|, capture shape, order class, verb, path skeleton).",
        "assumptions": [
            "ties between two variables at one trie node are not constrained (any non-dominated member is accepted)",
            "a template without :verb is never required to match a path containing ':'",
            "requests whose captures are not convertible for every matching rule are skipped for completeness (property precondition)",
        ],
    },
    "C16": {
        "pkg": "c16",
        "stages": [{"run": "^TestProp$", "quick": (10000, 8), "thorough": (60000, 16)}],
        "technique": "property-based testing (rapid): grammar-derived valid templates, single-edit mutants, selector/field-path/collision faults, classified by an independent EBNF parser; before/after probe differential for rejected registrations",
        "level_text": "Generated-input search over rules registered onto empty and populated muxes; the required verdict comes from a reference "
                      "parser written from the documented EBNF plus descriptor resolution; rejected registrations must leave a recorded probe set unchanged. Exploration only.",
        "level_note": "Trusts harness/ref.ParseTemplate; shapes on which the EBNF and google's prose disagree are only checked for absence of panics (registration and serving).",
        "rule": "rapid draws a base rule set (empty or 1-4 conflict-free methods) with probe requests, and a new method whose rule is: a valid "
                "grammar-derived template set (incl. one-character, dotted, hyphenated literals, nested fields, verbs), a single-edit mutant, a "
                "field-path fault, a body/response_body selector (valid/unknown/non-message), nested additional_bindings, a collision with a "
                "base binding, the same binding twice, or a re-declaration of its implicit path; supplied as annotation, service config or both. "
                "Oracle: valid => nil error and an instantiated path routes to the method; invalid => error, no panic, probes unchanged; contested "
                "=> no panic at registration or serving. Non-trivial = anything but a variable-free, verb-free valid template; distinct = (kind, "
                "verdict, template shapes, channel, mux emptiness, reason).",
        "assumptions": [
            "contested shapes (nested variables, '**' not last, literals/verbs not starting with a letter, '*' kind overlapping another method's specific verb, non-message body selectors, variables on non-scalar fields) are not asserted either way",
            "routing of an accepted rule is not asserted for paths that a base rule also matches",
        ],
    },
    "C19": {
        "pkg": "c19",
        "stages": [{"run": "^TestProp", "quick": (2500, 8), "thorough": (15000, 16)}],
        "technique": "property-based testing (rapid): selector sets vs a reference cover relation on a universe of prefix-sharing names; annotation-vs-service-config differential; healthz against a model of the health server",
        "level_text": "Generated-input search: (1) for every selector set and each of 18 methods with string-prefix-sharing names, a rule is bound iff the "
                      "reference cover relation holds; (2) the same rule as annotation and as config yields identical outcomes on a generated request set; "
                      "(3) /v1/healthz answers follow a model of statuses. Exploration only.",
        "level_note": "Selectors are syntactically valid; each method is registered alone on its own mux so that wildcard rules covering several registered methods (a legitimate duplicate) cannot hide the binding relation.",
        "rule": "three rapid properties: selectors (1-6 selectors from exact names, wildcards at every depth, service names without wildcard, "
                "wildcards below a method, string-prefix near misses, unrelated packages; 18 methods x each rule probed); equivalence (1-2 generated "
                "bindings with body/response_body, instantiated/near-miss requests with query and JSON bodies, compared annotation vs config); healthz "
                "(0-4 services with arbitrary UTF-8 names and statuses, queried escaped, plus unknown and absent service). Non-trivial = selector set "
                "with a wildcard or a non-covering selector / rule with variable or body that dispatched / healthz with >=1 named service; distinct = the selector "
                "list / binding shapes / (names,statuses).",
        "assumptions": [
            "selectors like 'a.*.b' (option-construction panic) and empty selectors are outside the property's domain",
        ],
    },
    "C03": {
        "pkg": "c03",
        "stages": [{"run": "^TestProp$", "quick": (12000, 8), "thorough": (80000, 16)}],
        "technique": "property-based testing (rapid): descriptor-driven message generator, split into path/query/body by the harness, round-trip oracle (proto.Equal) plus protojson-as-referee for invalid and non-canonical URL text",
        "level_text": "Generated-input search over a rich schema (every scalar kind, enum, bytes, repeated, nested, oneof, wrappers, Timestamp/Duration/FieldMask, maps, "
                      "repeated messages) x rule shapes x codecs x gzip x read partitions; positive law: handler message equals the generated message; negative law: "
                      "text protojson rejects must be rejected, text it accepts must be delivered as the same value. Exploration only.",
        "level_note": "Trusts protojson/proto as encoders and referee; NaN excluded; +-Inf only in body-borne fields; empty body sub-message presence is normalised.",
        "rule": "rapid draws a rule (verb x 0-2 path variables on scalar/enum/bytes/wrapper/Duration fields, top-level or nested, with sub-patterns x body "
                "'*'/none/body_leaf/nest) and a message M expressible under it (boundary-biased values); the harness splits M into path text, query "
                "(proto or JSON key spelling per key, repeated keys in order, key groups shuffled, base64 std/url x padded/unpadded, enum name or number) and a "
                "JSON / protobuf / octet-stream body, optionally gzip, delivered through a scripted fragmenting reader. A quarter of the cases replace one singular "
                "URL-borne leaf by an invalid/non-canonical text. Non-trivial = negative case, or every channel the rule uses is populated; distinct = (body "
                "selector, #vars, content type, gzip, negative family, set of query keys).",
        "assumptions": [
            "string-valued wrappers that are empty or themselves quoted, empty BytesValue and empty FieldMask are sent JSON-quoted (the bare form is ambiguous)",
            "larking may reject text that protojson accepts (e.g. '1.0' for an integer); it may not deliver a different value",
        ],
    },
    "C04": {
        "pkg": "c04",
        "stages": [{"run": "^TestProp$", "quick": (12000, 8), "thorough": (80000, 16)}],
        "technique": "property-based testing (rapid): generated replies x Accept/Accept-Encoding header grammar x routes (plain, response_body, HttpBody); independent decoders and an RFC 7231 Accept parser as oracle",
        "level_text": "Generated-input search: the response body must decode, with the codec named by the response Content-Type and an independent decoder, to exactly the "
                      "reply (or the response_body field); the Content-Type must be admitted by the Accept header per a reference RFC 7231 parser; HttpBody replies are "
                      "byte-exact under their own type; Content-Encoding must describe the bytes. Exploration only.",
        "level_note": "Trusts protojson/proto decoders and harness/ref.ParseAccept; 'admits' is read permissively (any range with q>0); malformed, mixed-case or "
                      "parameterised Accept values only require a registered response type.",
        "rule": "rapid draws a route (plain / response_body nest, nest.leaf, http_body / HttpBody method), GET or POST, a request content type, 0-3 Accept lines of "
                "0-4 ranges (registered, wildcard, unregistered and upper-case types, q-values incl. 0 and malformed, parameters, junk), an Accept-Encoding "
                "value, and a reply from the universe generator (empty .. ~100 KiB) or arbitrary HttpBody bytes/content type. Non-trivial = non-empty reply and "
                "(>=2 ranges or a q-value or a wildcard or a response_body/HttpBody route); distinct = (route, verb, request type, contested, |Adm|, Accept text).",
        "assumptions": [
            "response compression never engages in the pinned tree (encoding offers are built from the codec table), so clause (d) is exercised only on identity responses; class 'response-gzip' counts the others",
        ],
    },
    "C20": {
        "pkg": "c20",
        "stages": [{"run": "^TestProp$", "quick": (6000, 8), "thorough": (40000, 16)}],
        "technique": "property-based testing (rapid): generated mount-pattern sets and requests on four protocols; metamorphic oracle (response under prefix == bare mux response on stripped path) plus a ServeMux longest-prefix model",
        "level_text": "Generated-input search over mount pattern sets, extra handlers and requests (transcoding, Twirp, gRPC, gRPC-web) driven through http.Server.Handler "
                      "in-process; each response (status, headers, body, trailers, handler-received message) must equal the bare mux's response on the stripped path; "
                      "paths outside every prefix must not reach the mux; extra handlers keep their patterns. Exploration only.",
        "level_note": "Requests go through server.Handler.ServeHTTP with httptest recorders (the h2c wrapper passes non-upgrade requests through); redirecting paths (bare prefix without slash, unclean paths) are not generated.",
        "rule": "rapid draws 1-4 mount patterns (with/without trailing slash, '/', nested '/a' '/a/b', '/twirp'), optional extra handlers on disjoint patterns, and "
                "4-10 requests = (configured prefix | near-miss prefix | none | extra pattern) + (route, near miss or unknown path of a fixed rule set) on one of 4 protocols "
                "with queries and bodies. Non-trivial = a prefixed request served 200, or a request outside every prefix, or a nested prefix; distinct = (pattern set, extras, "
                "per-request protocol and prefix).",
        "assumptions": ["duplicate mount patterns (ServeMux panics by contract) are not generated"],
    },
    "C17": {
        "pkg": "c17",
        "stages": [{"run": "^TestProp", "quick": (12000, 4), "thorough": (250000, 16)}],
        "technique": "property-based testing (rapid) plus exhaustive enumeration of read partitions: write/read round trip of the exported stream codecs under a scripted fragmenting reader with a remainder invariant",
        "level_text": "Generated and exhaustively enumerated read schedules against the exported CodecProto/CodecJSON and the HttpBody chunker: the messages read back equal the messages "
                      "written, the bytes after each message are exactly the unread remainder, truncation inside a message is a non-EOF error, over-limit and absurd length "
                      "prefixes are errors and never panic. Exploration (random part) with a completely enumerated sub-space (all partitions of short streams).",
        "level_note": "The caller follows the documented carry-over discipline (dst[n:] becomes the next buf, copied into a buffer of drawn capacity); a final message returned together with io.EOF is accepted.",
        "rule": "rapid draws codec, 0-6 messages (protobuf: sizes around 0/1/63..65/127..129/16384 and random; JSON: generated objects with braces, quotes and escapes inside "
                "strings, optionally indented; HttpBody: uploads around multiples of the limit), or a hand-made 1-10 byte varint prefix (overlong, 2^31, 2^63, 2^64-1), a read script "
                "(unconstrained / byte-wise / 1-8 drawn chunks incl. zero-length reads; last chunk with or without simultaneous EOF), initial and carry-over buffer capacities, a limit "
                "around the message sizes and an optional truncation offset. TestPropExhaustive enumerates all 2^(n-1) partitions of 7 fixed streams. Non-trivial = raw prefix, "
                "limit within +-1 of a size, truncation, carry-over into a call, or >=2 messages with a split inside a message; distinct = the full abstract case.",
        "assumptions": ["limit >= 1", "JSON inputs are brace-balanced objects produced by WriteNext of valid JSON (the codec documents that it does not validate)"],
    },
    "C06": {
        "pkg": "c06",
        "stages": [{"run": "^TestProp$", "quick": (5000, 8), "thorough": (40000, 16)},
                   {"run": "^TestPropWS$", "quick": (150, 2), "thorough": (1500, 8)}],
        "technique": "property-based testing (rapid): generated message sequences x transport x codec x compression x read partition x truncation offset, recording handlers and independent frame/JSON/varint decoders as oracle",
        "level_text": "Generated-input search over client-, server- and bidi-streaming calls on gRPC, gRPC-web (binary/text), HTTP JSON, HTTP length-delimited protobuf, "
                      "HttpBody chunk framing (and WebSocket over a real connection): the handler's received sequence and terminal error and the client's decoded "
                      "reply sequence and final status must equal the scripted ones for every read partition and truncation point. Exploration only.",
        "level_note": "In-process transports use httptest recorders and a scripted reader; streaming HTTP requests are sent with unknown Content-Length (as a streaming client does).",
        "rule": "rapid draws shape (client/server/bidi, HttpBody upload/download), transport, gzip (per-message or Content-Encoding), 0-8 (thorough 0-24) messages and replies from the "
                "universe generator incl. empty messages, uploads around multiples of the chunk size, ping-pong or batch reply discipline, a read partition (unconstrained, byte-wise, "
                "1-10 drawn chunks; final chunk with or without EOF), an optional truncation offset and an optional failing final status. Non-trivial = >=2 messages with a split inside a "
                "message/frame header, truncation strictly inside a message, an upload within +-1 of a chunk multiple, or >=2 replies; distinct = the abstract case.",
        "assumptions": [
            "on plain HTTP an error after the first reply cannot change the status line; there only the replies already sent are compared",
            "for gzip request bodies cut short only 'a prefix of the messages, then a non-EOF error' is asserted",
        ],
    },
    "C08": {
        "pkg": "c08",
        "stages": [{"run": "^TestProp$", "quick": (6000, 8), "thorough": (40000, 16)},
                   {"run": "^TestPropWS$", "quick": (150, 2), "thorough": (1500, 8)}],
        "technique": "property-based testing (rapid): messages with exactly controlled encoded size around configured limits across the protocol x codec x compression matrix; recording handlers as over-limit oracle, success as no-spurious-refusal oracle",
        "level_text": "Generated-input search: request and reply messages whose encoded size is exactly L-1, L, L+1, 4L, 64L or 1 MiB (compressible padding, so gzip frames stay far "
                      "below the limit) on HTTP unary/streaming JSON and protobuf, gzip request bodies, HttpBody unary/chunked, gRPC, gRPC-web(-text) with and without per-message gzip, "
                      "WebSocket, plus hand-written varint prefixes up to 2^64-1: no handler may observe a message over the receive limit, and nothing within the limits may be refused. Exploration only.",
        "level_note": "Encoded sizes are exact by construction (padding solved per codec); JSON bodies are written compactly by the harness; replies over the send limit are not asserted.",
        "rule": "rapid draws cell, receive limit L in [32,4096], send limit S (default, 4L, around L, or in [L,4L]), 1-4 request messages of which one has a boundary size "
                "(L-1, L, L+1, 4L, 64L, 1 MiB) and a reply sized around S or just above L. Non-trivial = a size within +-1 of a limit, or an over-limit message that is compressed below "
                "the limit, or a raw length prefix; distinct = (cell, per-message boundary class, L, S, reply size, prefix).",
        "assumptions": ["HttpBody chunked uploads are framed, not refused: there the oracle is 'every chunk <= L'"],
    },
    "C05": {
        "pkg": "c05",
        "stages": [{"run": "^TestProp$", "quick": (12000, 8), "thorough": (60000, 16)},
                   {"run": "^TestPropReal$", "quick": (600, 6), "thorough": (4000, 16)}],
        "technique": "property-based testing (rapid): generated (code, message, details, failure point) x protocol, checked with a real grpc-go client, independent frame/percent/base64/JSON decoders and the documented code tables as oracle",
        "level_text": "Generated-input search over status codes 0..16 and out-of-range values, messages that need escaping (%, control bytes, multi-byte UTF-8, long), optional details and errors "
                      "before/after replies on HTTP JSON/protobuf, Twirp, gRPC (real grpc-go client over h2c), gRPC-web(-text) and WebSocket (gobwas client): the client must observe the same code, "
                      "message and details through independent decoders, and every status value must produce a response. Exploration only.",
        "level_note": "Trusts grpc-go's client as the gRPC observer and the harness's percent/base64/frame decoders; CANCELLED may map to 408 or 499; Twirp HTTP status and the WebSocket code table are not constrained beyond well-formedness.",
        "rule": "rapid draws transport, code (0..16, 17, 18, 99, 2^31-1), message (pool of hostile constants, random UTF-8, long runs of 1/2/3-byte characters around the 123-byte close-frame limit), "
                "0-2 details and the failure point (unary, or server streaming after 0/1/3 replies). Non-trivial = message needs escaping, or details present, or code out of range, or error after "
                ">=1 reply; distinct = the whole case.",
        "assumptions": ["on plain HTTP an error after the first reply only requires an intact response"],
    },
    "C14": {
        "pkg": "c14",
        "stages": [{"run": "^TestProp$", "quick": (12000, 8), "thorough": (60000, 16)},
                   {"run": "^TestPropReal$", "quick": (600, 6), "thorough": (5000, 16)}],
        "technique": "property-based testing (rapid): generated request headers and handler header/trailer sets (incl. -bin values and reserved names) x transport; handler-side metadata and client-side headers/trailers (raw, gRPC-web trailer frame, real grpc-go client) compared with what was sent",
        "level_text": "Generated-input search: inbound headers (mixed-case names, multi-valued, -bin values padded and unpadded) must reach the handler's incoming metadata exactly; "
                      "handler header/trailer metadata must reach the client byte-exact on gRPC (in-process and real grpc-go client), gRPC-web and HTTP transcoding, for successful and failing "
                      "RPCs; reserved keys set by the handler must not change status, message, details, content type or encoding seen by the client. Exploration only.",
        "level_note": "Key/value alphabets are those net/http and grpc-go transmit unchanged (visible ASCII without leading/trailing space; metadata keys [a-z0-9_.-]).",
        "rule": "rapid draws transport, 0-3 request headers (x-prefixed names, 1-3 values, -bin with arbitrary bytes padded or not), handler header and trailer sets of 0-4 keys "
                "(plain, -bin, multi-valued, reserved names with forged values), SetHeader vs SendHeader, trailer set early or late, and success or failure. Non-trivial = a -bin value whose length "
                "is not a multiple of 3, a multi-valued key, a reserved key, or a failing RPC; distinct = the whole case.",
        "assumptions": ["trailers are not expected on plain HTTP transcoding"],
    },
    "C18": {
        "pkg": "c18",
        "stages": [{"run": "^TestProp$", "quick": (10000, 8), "thorough": (60000, 16)},
                   {"run": "^TestPropProxied$", "quick": (150, 4), "thorough": (2000, 16), "timeout": {"quick": 900, "thorough": 5400}}],
        "technique": "property-based testing (rapid): generated RPC scripts x protocol x option subsets with recording interceptors and stats handler; event-grammar oracle plus an options-on/off metamorphic relation",
        "level_text": "Generated-input search over unary and the three streaming shapes on HTTP transcoding, gRPC and gRPC-web, message sizes from empty upward (incl. < 5 bytes), "
                      "successful and failing handlers and every subset of {unary interceptor, stream interceptor, stats handler} with pass-through, reply-replacing, error-replacing and "
                      "context-decorating interceptors: interceptor call counts/info, the stats event grammar and the transparency relation (options on == options off) are checked. Exploration only.",
        "level_note": "In-process transports; WebSocket is outside the property's quantifier; Client/WireLength fields of payload events are not asserted.",
        "rule": "rapid draws shape, transport (HTTP POST/GET, gRPC, gRPC-web), 0-4 request messages with encoded size in {0,2..7,40,200}, 0-4 replies, an optional failure after 0-2 replies, "
                "the option subset and the interceptor behaviour; every case is executed twice (options off / on). Non-trivial = at least one option on and (streaming shape or failing "
                "handler or a message shorter than 5 bytes); distinct = the whole case.",
        "assumptions": [],
    },
    "C15": {
        "pkg": "c15",
        "stages": [{"run": "^TestPropTimeout", "quick": (8000, 4), "thorough": (100000, 16)},
                   {"run": "^TestPropCancel$", "quick": (40, 3), "thorough": (300, 8), "timeout": {"quick": 900, "thorough": 3600}, "shrinktime": "2s"}],
        "technique": "property-based testing (rapid) + enumeration: grpc-timeout strings from the grammar and malformed shapes against an independent decoder and a bracketing deadline oracle; cancellation/disconnect at handler-announced blocking points over real connections with a bounded-liveness oracle",
        "level_text": "(a) Generated and enumerated grpc-timeout strings: for legal values the handler's ctx.Deadline() must lie in [t_before+T, t_after+T] (no tolerance constant), "
                      "malformed values must be refused without running the handler. (b) Cancellation: grpc-go (h2c), plain HTTP/1.1 and gRPC-web over real connections are cancelled or "
                      "disconnected while the handler has announced that it is blocked in Recv / Send / idle between messages; the blocked call must return an error and ctx.Done() must "
                      "close within 10 s (a miss must repeat three times). Exploration only; (b) is a bounded-time observation of a liveness property.",
        "level_note": "Sign-prefixed timeouts are excluded (unspecified). (b) reads a wall clock with a 10 s bound (typical release < 10 ms) and samples schedules chosen by the Go runtime.",
        "rule": "TestPropTimeout: legal strings (1-8 digits boundary-biased or random x 6 units, leading zeros, overflowing hours) and ~30 malformed shapes; TestPropTimeoutEnum: all (length, unit) pairs "
                "x 8 boundary digit strings. TestPropCancel: transport x cancel point (before first message, while blocked in Recv after k exchanges, while blocked in Send against a non-reading "
                "client with 256 KiB messages, idle between messages) x mechanism (context cancel for grpc-go, connection close for HTTP/1.1). Non-trivial = distinct (shape, validity[, value]) "
                "for timeouts; for cancellation a case in which the handler verifiably announced the blocking point before the cancel was issued.",
        "assumptions": ["'promptly' is observed as 'within 10 s'"],
    },
    "C10": {
        "pkg": "c10",
        "stages": [{"run": "^TestProp$", "quick": (500, 8), "thorough": (4000, 16), "timeout": {"quick": 900, "thorough": 5400}, "shrinktime": "5s"}],
        "technique": "property-based testing (rapid): generated lock-step call scripts run directly against a real reflection-enabled backend and through larking (RegisterConn); differential comparison of backend and client transcripts",
        "level_text": "Generated call scripts (unary and the three streaming shapes, request metadata incl. -bin and multi-valued keys, ping-pong or batch discipline, backend failure before the "
                      "first response / after k responses / after the client's half-close, status with message and details) are executed with a real grpc-go client directly against the "
                      "backend and through larking over h2c (identity and gzip), and with HTTP/JSON on the implicit binding; transcripts must be identical. Exploration only.",
        "level_note": "Scripts are lock-step so transcripts are schedule-independent; client-side Send errors after a backend failure are not compared; transport-generated metadata is excluded; a call that does not finish within 8 s counts as a hang.",
        "rule": "rapid draws shape, front end, 0-5 request messages from the universe generator, 0-3 metadata keys, reply count, discipline and failure point/code/message/details. Non-trivial = "
                "streaming with >=2 messages in some direction, or a failure point, or -bin/multi-valued metadata; distinct = the whole script.",
        "assumptions": ["with the HTTP/JSON front only response messages and, for failures before the first response, the status are compared"],
    },
    "C11": {
        "pkg": "c11",
        "stages": [{"run": "^TestProp$", "quick": (60, 4), "thorough": (600, 16), "timeout": {"quick": 900, "thorough": 5400}},
                   {"run": "^TestPropExhaustive$", "quick": (1, 4), "thorough": (1, 16), "timeout": {"quick": 900, "thorough": 5400}}],
        "technique": "model-based property testing (rapid-generated and exhaustively enumerated operation histories) against an in-memory registration model, with tagged real backends and probes after every step",
        "level_text": "Histories of RegisterConn / DropConn / RegisterService(local) / re-registration / drop of an unknown connection / registration after the backend's service set changed, over three "
                      "real reflection-enabled backends and a local implementation that expose overlapping and disjoint services; after every step 12 probes per service (HTTP annotation route, "
                      "HTTP implicit route, gRPC) must be answered by a member of the model's owner set, or unimplemented when it is empty; dropped backends must see no further request; return "
                      "values are checked. Exhaustive up to a length bound, random beyond. Exploration with an enumerated sub-space.",
        "level_note": "The handler pick among several owners is random inside larking, hence 12 probes per service and a set-membership oracle; histories are generated as operation lists executed against "
                      "the model with the invariant checked after every step (equivalent to rapid's state-machine mode, but directly replayable as JSON).",
        "rule": "TestProp: rapid draws 1-8 (thorough 1-20) operations from a 9-operation alphabet; TestPropExhaustive: all histories of length <= 2 (thorough <= 4: 7380). Non-trivial = history "
                "containing a drop after a register, two owners for one method, or a re-registration; distinct = the operation sequence.",
        "assumptions": ["stale routes of fully dropped methods may answer Unimplemented or NotFound"],
    },
    "C12": {
        "pkg": "c12",
        "stages": [{"run": "^TestPropSnapshots$", "quick": (400, 8), "thorough": (4000, 16), "timeout": {"quick": 900, "thorough": 5400}},
                   {"run": "^TestPropStress$", "quick": (12, 4), "thorough": (120, 16), "race": True, "timeout": {"quick": 900, "thorough": 5400}}],
        "replay_race": True,
        "technique": "property-based testing (rapid): (a) generated writer histories with a snapshot-immutability monitor over hook-exposed fingerprints (deterministic, no threads); (b) seeded concurrent stress plans under the Go race detector with a visibility oracle",
        "level_text": "(a) Histories of successful registrations, registrations that fail on their LAST method, RegisterConn and DropConn: every snapshot ever published must keep its deep structural "
                      "fingerprint after all later operations (published states are never mutated in place), and a failed operation must publish nothing and change no probe. (b) Reader goroutines on "
                      "HTTP/gRPC/gRPC-web hammer a pre-registered method, all methods of a service being registered (absent or fully served, jointly and monotonically), a failing registration (never "
                      "observable) and conn-backed methods while writers run drawn operation lists with drawn yield jitter, under -race. Exploration; (b) samples schedules chosen by the Go scheduler.",
        "level_note": "(a) quantifies over histories and is what a torn read would need; together with the code fact that a request loads the snapshot pointer once it carries most of the weight. (b) cannot enumerate interleavings; a race report is a violation whose replay file is the log.",
        "rule": "TestPropSnapshots: 2-10 operations from {local, multi-ok, multi-bad (fails on last method), conn/drop B1..B3, alter B3}; non-trivial = >=1 failing operation and >=2 snapshots. "
                "TestPropStress: 2-12 readers x 20-80 request rounds (4 probes each, 3 protocols), writer op lists and jitter drawn; non-trivial = at least one request overlapped a writer operation (counted).",
        "assumptions": ["conn-backed methods may answer 200, 404 or 501 while their connection is being registered or dropped"],
    },
    "C13": {
        "pkg": "c13",
        "stages": [{"run": "^TestPropInterleave$", "quick": (2500, 8), "thorough": (20000, 16), "timeout": {"quick": 900, "thorough": 5400}},
                   {"run": "^TestPropStress$", "quick": (6, 4), "thorough": (60, 16), "race": True, "timeout": {"quick": 900, "thorough": 5400}}],
        "replay_race": True,
        "technique": "property-based testing (rapid): (a) harness-owned interleavings of 2-4 calls at message granularity with self-describing payloads re-verified after the other calls ran; (b) seeded mixed-protocol stress with injected faults under the Go race detector",
        "level_text": "(a) Handlers park before every RecvMsg/SendMsg and rapid draws the release order, protocol/codec/compression per call and payload sizes around the buffer-pool thresholds; "
                      "every message a handler holds must still verify (id, sequence, checksum-derived filler) after the other calls completed, and every response must verify against its own request. "
                      "(b) 8-32 workers x 20-60 calls over gRPC/gRPC-web/HTTP JSON+protobuf (identity and gzip), unary, HttpBody passthrough and a proxied method, with injected body-read failures, "
                      "under -race; per-call echo equality. Exploration; (b) samples schedules.",
        "level_note": "(a) is deterministic (only one call runs between two parks) and targets 'buffer returned to the pool while still referenced' and pooled decompressor reuse; (b) relies on the Go scheduler and the race detector.",
        "rule": "TestPropInterleave: 2-4 bidi echo calls x 1-4 messages with filler sizes from {0,1,10,20,25,63,64,65,100,1000,1024,...,5000}, receive limit default/2048/1200, release order drawn; non-trivial = "
                ">=2 calls were parked simultaneously and a pooled-size payload was present. TestPropStress: non-trivial = measured peak concurrency >= 4 and >= 1 injected fault.",
        "assumptions": ["response compression is unreachable in the pinned tree, so the gzip-writer pool is only exercised through gRPC per-message compression"],
    },
    "C09": {
        "pkg": "c09",
        "stages": [{"run": "^TestProp$", "quick": (8000, 4), "thorough": (200000, 16), "timeout": {"quick": 900, "thorough": 7200}}],
        "fuzz": {"target": "FuzzServe", "seconds": 300},
        "technique": "property-based testing / fuzzing (rapid structured generator, also driven by Go's native coverage-guided fuzzer through rapid.MakeFuzz in the thorough tier) with recover(), status-range and read/message-count oracles",
        "level_text": "Generated requests on the four entry paths (transcoding, gRPC, gRPC-web(-text), WebSocket upgrade through a hijackable writer over a pipe) against a fixed rich rule set "
                      "(multi-segment ** variables with verbs, typed and nested variables, body fields, response_body, websocket kinds with and without body, all streaming shapes, HttpBody, "
                      "healthz) under 8 mux configurations (interceptors, stats handler, small limits): hostile paths, dotted query walks through repeated/map/oneof/message fields, header sets, "
                      "bodies with mutated frame lengths, fragmented and failing readers, handlers returning out-of-range codes and reserved metadata. Oracle: no panic, a status in 100..599 (or a "
                      "hijack), a bounded number of Read calls and received messages. Exploration only.",
        "level_note": "A 20 s watchdog converts a genuine hang into exit 2 with the input printed; it is never itself a verdict. Harness handlers never panic themselves.",
        "rule": "structured generator (see genCase): entry x method x path (hostile constants, raw bytes, instantiated templates with mutations) x query (hostile dotted walks) x 0-4 headers from a "
                "hostile pool x body (constants, raw bytes, gRPC/WebSocket frames with mutated lengths and flags, bad base64, gzip) x read partition x handler script. Non-trivial = the request got "
                "past entry dispatch into the matcher, a stream/frame parser or a handler; distinct = (entry, stage, status class, handler script, config, path, query, headers).",
        "assumptions": [],
    },
}


# ---------------------------------------------------------------------------
# Amendments to the texts above, one per strengthening of a check (DESIGN.md section 7.3).
def _amend(k, field, old, new):
    v = PROPS[k][field]
    if isinstance(v, list):
        assert any(old in x for x in v), (k, field, old[:40])
        PROPS[k][field] = [x.replace(old, new, 1) for x in v]
    else:
        assert old in v, (k, field, old[:40])
        PROPS[k][field] = v.replace(old, new, 1)

_amend("C03", "rule", "delivered through a scripted fragmenting reader.", "delivered through a scripted fragmenting reader; an Accept header naming another registered codec is drawn independently of the Content-Type.")
_amend("C04", "rule", "or arbitrary HttpBody bytes/content type.", "or arbitrary HttpBody bytes/content type (incl. the empty string), and how the handler sets header metadata (not at all / SetHeader / SendHeader before replying).")
_amend("C06", "rule", "transport, gzip (per-message or Content-Encoding),", "transport (gRPC, gRPC-web, grpc-web-text, HTTP JSON/protobuf/HttpBody in process; WebSocket over a real connection), gzip (Content-Encoding, or per message with the compressed flag drawn per frame once an encoding is negotiated),")
_amend("C07", "rule", "on top-level/nested string and integer fields x sub-pattern x body none/*/book)", "on top-level/nested string, integer, well-known-type (FieldMask, Duration, wrappers) and oneof-member fields x sub-pattern x body none/*/book; 5 % of the rules are bound as WebSocket rules and driven over a real connection with 0-2 zero-length frames before the message)")
_amend("C07", "rule", "and/or the JSON/protobuf body; oracle:", "and/or the JSON/protobuf body, optionally also through a key that reaches inside the bound field (label.value, ttl.seconds, update_mask.paths) or names its oneof sibling; oracle:")
_amend("C07", "assumptions", "requests are driven in-process through Mux.ServeHTTP with httptest.ResponseRecorder", "HTTP requests are driven in-process through Mux.ServeHTTP with httptest.ResponseRecorder, WebSocket ones through a real loopback server and a gobwas client; on a WebSocket binding only the first message of the stream is bound to the URL, later messages are not asserted")
_amend("C09", "rule", "bad base64, gzip)", "bad base64, truncated and well-formed gzip); 60 % of the cases start from a request that reaches a handler (every binding kind, optionally gzip-compressed) and apply 0-2 perturbations")
_amend("C10", "rule", "failure point/code/message/details.", "failure point/code/message/details (messages with '%' before hex digits, control bytes, quotes and multi-byte runes).")
_amend("C10", "assumptions", "with the HTTP/JSON front only response messages and, for failures before the first response, the status are compared", "with the HTTP/JSON front the response messages and the trailing google.rpc.Status object (after any number of replies) are compared; HTTP status line and headers are not")
_amend("C12", "rule", "non-trivial = at least one request overlapped a writer operation (counted).", "after the plan every connection must be routed iff its last operation registered it, and the local services iff registered (a completed writer is never overwritten by another); non-trivial = at least one request overlapped a writer operation (counted).")
_amend("C15", "rule", "connection close for HTTP/1.1).", "connection close for HTTP/1.1, also with a gzip-compressed request stream cut inside a deflate block).")
_amend("C16", "rule", "a single-edit mutant, a field-path fault,", "a single-edit mutant (delete/insert/replace with grammar punctuation, identifier characters or 2-, 3- and 4-byte runes), a field-path fault,")
_amend("C16", "rule", "supplied as annotation, service config or both.", "supplied as annotation, service config or both. All generated methods share the short name Mth (only full names differ).")
_amend("C18", "rule", "transport (HTTP POST/GET, gRPC, gRPC-web),", "transport (HTTP POST/GET - the GET optionally with a stray body the binding does not map -, gRPC, gRPC-web), local service or RegisterConn-proxied backend, handler header/trailer metadata,")
_amend("C19", "rule", "plus unknown and absent service).", "plus unknown and absent service; 1 case in 8 also follows a service through the documented WebSocket binding and must see its current and every later status).")

_amend("C01", "rule", "Non-trivial", "One request in four carries a decoy query parameter naming a string field that some template of the rule set binds (it may fill a field the matched template does not bind, never displace a captured one). Non-trivial")
_amend("C04", "rule", "GET or POST,", "GET or POST (the POST body optionally gzip-compressed with Content-Encoding: gzip),")
_amend("C05", "rule", "Non-trivial", "One gRPC-family call in three negotiates per-message gzip (request and replies compressed). Non-trivial")
_amend("C12", "rule", "TestPropStress: 2-12 readers x 20-80 request rounds", "TestPropStress: 0-3 connections registered beforehand, 2-12 readers running until both writers are done (at least 20-80 request rounds; a Solo method with a single annotated binding and a single owner is probed with a 44 KB query and must answer 200 or 404, never 501)")
_amend("C13", "rule", "release order drawn;", "release order drawn; one call in six instead downloads a blob that the handler serves from memory outliving the call, and after every interleaving the blobs must be byte-identical to their pristine copies;")
_amend("C16", "rule", "nested additional_bindings,", "nested additional_bindings, a variable nested in another variable's pattern after an arbitrary valid prefix,")
_amend("C18", "rule", "0-4 replies,", "0-4 replies (un.All, or google.api.HttpBody on the unary and server-streaming raw methods),")
_amend("C19", "rule", "compared annotation vs config);", "compared annotation vs config; in 1 case of 4 the selected method also carries an annotation of its own on the same verb and path position that maps differently, and the configured rule must still be the one in force);")

_amend("C07", "rule", "Non-trivial", "A second property (TestPropHTTPBody) binds a variable INSIDE a google.api.HttpBody body field ({file.content_type=*/*}) on unary and client-streaming uploads, where the request's own Content-Type header and a query key compete; the streaming handler reads with RecvMsg or with larking.AsHTTPBodyReader. Ten per cent of the generated rules are client-streaming over plain HTTP (the URL is bound to the first message). Non-trivial")
_amend("C03", "rule", "optionally gzip,", "optionally gzip (one member, or two concatenated members),")
_amend("C08", "rule", "Non-trivial", "Half of the WebSocket cases send each message as RFC 6455 fragments of 1, 7, L/2, L-1 or L bytes. Non-trivial")
_amend("C09", "rule", "Non-trivial", "On the WebSocket entry the frames the server writes are parsed and validated (control frames <= 125 bytes, close code and UTF-8 reason per RFC 6455, text frames valid UTF-8). Non-trivial")
_amend("C10", "rule", "rapid draws shape, front end,", "rapid draws shape, front end (gRPC, gRPC with gzip, HTTP/JSON - the latter streams its request messages for client-streaming and bidi methods),")
_amend("C14", "rule", "Non-trivial", "In one case of three the handler sets its header and trailer metadata one value per SetHeader/SetTrailer call. Non-trivial")
_amend("C16", "rule", "Oracle: valid => nil error and an instantiated path routes to the method;", "Oracle: valid => nil error and instantiated paths (one fixed, two generated with wildcards steered towards literals the base rules spell) route to the method;")
_amend("C18", "rule", "gRPC, gRPC-web),", "gRPC, gRPC-web with grpc-encoding absent / identity / gzip),")
_amend("C19", "rule", "compared annotation vs config;", "compared annotation vs config (in 1 of 3 multi-binding cases the config first selects the method with the primary binding alone and then with the full rule);")
_amend("C03", "rule", "Non-trivial", "In a quarter of the cases a second service is registered on the mux after the one under test (the routing state is copied on every registration). Non-trivial")
_amend("C04", "rule", "GET or POST", "0-2 later registrations on the same mux, GET or POST")
_amend("C05", "rule", "One gRPC-family call in three negotiates per-message gzip", "One gRPC-web call in three uses the +json message sub-codec; one gRPC-family call in three negotiates per-message gzip")
_amend("C06", "rule", "WebSocket over a real connection)", "WebSocket over a real connection, its messages optionally fragmented and its closing 1000 frame with or without a reason text)")
_amend("C09", "rule", "under 8 mux configurations" if False else "x 0-4 headers from a hostile pool", "x 0-4 headers from a hostile pool or list-valued headers (Accept, Accept-Encoding, ...) assembled from hostile elements")
_amend("C09", "level_note", "A 20 s watchdog converts a genuine hang into exit 2 with the input printed; it is never itself a verdict.", "A request that does not return within 10 s is served again on a fresh mux: twice in a row is the violation 'wedged' (the clause 'never loops without consuming input' is only observable through a clock), once is inconclusive (exit 2). 16 mux configurations incl. a user codec without stream framing.")
_amend("C14", "rule", "Non-trivial", "Besides the unary method a server-streaming one sends 0-2 replies (gRPC, gRPC-web, HTTP). Non-trivial")
_amend("C16", "rule", "a field-path fault,", "a field-path fault (unknown names, scalars, repeated fields, paths stepping into map entries),")
_amend("C18", "rule", "handler header/trailer metadata,", "handler header/trailer metadata, one HTTP request in eight with a query string the method refuses (the stats sequence must still be closed),")

_amend("C11", "rule", "Non-trivial", "After every step 20 probes per service (7 services; HTTP annotated route, implicit route over HTTP and gRPC, a route with a path variable and a query, and a Tree binding that shares route-tree nodes with other services' bindings). Backend B2 is built from a copy of the schema with reversed field declaration order; B3 serves two services declared in one proto file. Non-trivial")

_amend("C02", "rule", "Non-trivial", "One request in four reaches the mux through a client spelling of its path that is not Go's canonical escaping (percent-encoded unreserved characters, upper/lower-case hex, optional trailing slash), so URL.RawPath is set as it is for real clients. Non-trivial")
_amend("C05", "rule", "Non-trivial", "Before failing, the handler does nothing / SetHeader / SendHeader. Non-trivial")
_amend("C09", "rule", "x handler script", "x handler script (incl. handlers that outlast short grpc-timeout values: they wait for their context, 60 ms at most, before replying)")
_amend("C12", "rule", "multi-bad (fails on last method)", "multi-bad (fails on its last unary method), multi-bad-s (fails in its streaming method, after both valid unary ones)")
_amend("C13", "rule", "release order drawn;", "release order drawn; with a receive limit one call in eight is a unary body over the limit (refused; what it leaves in the pools must not hurt the parked calls);")
_amend("C15", "rule", "connection close for HTTP/1.1,", "connection close for HTTP/1.1 (half of those with a trailing slash on the path, which the mux normalises before routing),")
_amend("C16", "rule", "All generated methods share the short name Mth", "The response type (rt.Rsp) differs from the request type (rt.Req), each with a message field the other lacks. All generated methods share the short name Mth")

# round 8
_amend("C03", "rule", "Non-trivial", "A quarter of the cases use a client-streaming binding whose FIRST message must be the reconstruction (JSON concatenated, protobuf length-delimited). Non-trivial")
_amend("C04", "rule", "Non-trivial", "Body-less GET routes whose reply is raw or response_body-selected also receive odd request content types (image/jpeg, ...). Non-trivial")
_amend("C05", "rule", "Non-trivial", "A failing raw-upload (google.api.HttpBody) route with its own request Content-Type and Accept is part of the route set. Non-trivial")
_amend("C06", "rule", "Non-trivial", "For a truncated gzip upload the harness inflates the cut body itself and requires every message that is complete in the deliverable bytes. Non-trivial")
_amend("C09", "rule", "Non-trivial", "Stream bodies also come as length-delimited protobuf with message sizes around the pooled buffer capacities (64/128/1024); on the gRPC entries the declared grpc-encoding (none/gzip/identity/unknown) is drawn apart from the frames' compressed flags. Non-trivial")
_amend("C10", "rule", "Non-trivial", "One message in five is empty. Non-trivial")
_amend("C12", "rule", "non-trivial = at least one request", "writer operations include registrations that fail late (multi-bad-s, conn-bad: a backend without reflection); an operation that does not return within 15 s is the violation 'operation-blocked'; non-trivial = at least one request")
_amend("C13", "rule", "non-trivial = >=2 calls", "gRPC-web trailer frames are parsed and must carry this call's own status; non-trivial = >=2 calls")
_amend("C15", "rule", "Non-trivial", "A third of the muxes carry options (a no-op stats handler, pass-through interceptors), which must not detach the handler's context. Non-trivial")
_amend("C18", "rule", "Non-trivial", "Streaming shapes on local services draw a send limit that refuses the third or fourth reply (no OutPayload for a refused reply, End carries the error). Non-trivial")

# round 9
_amend("C02", "rule", "Non-trivial", "One method in eight also lists its implicit route (POST /rt.SvcN/Mth, body *) as a binding of its rule. Non-trivial")
_amend("C04", "rule", "Non-trivial", "A third of the cases serve one long-lived reply object (a cached asset) after earlier traffic on the same mux (the same download, then an unrelated larger request). Non-trivial")
_amend("C05", "rule", "Non-trivial", "One failing handler in six also sets trailer metadata under the protocol's own names (grpc-status: 0, grpc-message: all good), which must not reach the client. Non-trivial")
_amend("C07", "rule", "Non-trivial", "HttpBody uploads (TestPropHTTPBody) bind file.content_type and name in the path against the request's Content-Type and query, unary, client-streaming (RecvMsg or AsHTTPBodyReader) and bidi with an HttpBody reply stream whose handler may open AsHTTPBodyWriter before its first receive. Non-trivial")
_amend("C13", "rule", "TestPropStress: non-trivial", "TestPropStress also returns one shared reply object of the handler to bursts of three concurrent callers of a rule with response_body (the server may only read it). TestPropStress: non-trivial")

# round 10
_amend("C04", "rule", "(the same download, then an unrelated larger request)", "(an unrelated larger request carrying the same Accept header in the other codec, the same download, the unrelated request again)")
_amend("C05", "rule", "Non-trivial", "One mux in six has a send limit of 16/64/256 bytes (a status is not a message: it must arrive whatever its size). Non-trivial")
_amend("C08", "rule", "Non-trivial", "A third of the protobuf cases build their messages from 2-byte occurrences of one field (the last occurrence wins), so that a message cut short at the limit would still decode. Non-trivial")
_amend("C19", "rule", "Non-trivial", "In half of the healthz cases the config also holds a user rule on Health.Check (get /livez), added before or after AddHealthz; both paths must report the statuses. Non-trivial")
_amend("C20", "rule", "Non-trivial", "HEAD is among the verbs; one case in twenty also sends its http/twirp requests over real HTTP/1.1 connections (in memory) to a real net/http server on either side and compares the raw response bytes. Non-trivial")
_amend("C11", "rule", "a route with a path variable and a qu", "a route with a path variable and nested as well as top-level query parameters - formerly only a top-level qu")
_amend("C12", "rule", "TestPropStress:", "TestPropStress (readers also probe the pre-registered, later co-owned SvcA through its path-variable binding with nested query parameters):")

# round 11
_amend("C01", "rule", "Non-trivial", "The five standard verbs are compared exactly (HTTP method tokens are case-sensitive; custom kinds in any case); one request in twelve spells its verb in another case. Non-trivial")
_amend("C04", "rule", "Non-trivial", "Every case first builds a neighbouring mux whose options replace the JSON codec (the options of one mux say nothing about another). Non-trivial")
_amend("C05", "rule", "Non-trivial", "One handler in six returns a plain Go error (io.EOF, errors.New) instead of a status: Unknown with the error's text. Non-trivial")
_amend("C09", "level_note", "once is inconclusive (exit 2).", "once is inconclusive (exit 2). The scripted body reader fails after 2^21 calls, so a goroutine that spins on reads ends and is reported by the read-count oracle rather than by the clock.")
_amend("C12", "rule", "multi-bad-s (fails in its streaming method, after both valid unary ones)", "multi-bad-s (fails in its streaming method, after both valid unary ones), conn-bad (backend without reflection), conn-badrule (backend with reflection serving un.MultiBad: refused at the rule level)")
_amend("C13", "rule", "TestPropStress also returns", "TestPropStress lets the backend of a proxied stream fail first with a gRPC front and with a gzip-compressed HTTP/JSON upload still trickling in, and also returns")
_amend("C14", "rule", "Non-trivial", "A third of the streaming HTTP cases use an HttpBody download written through larking.AsHTTPBodyWriter; the metadata keys include the protocol's own names and 'trailer'. Non-trivial")
_amend("C16", "rule", "Non-trivial", "A 'long' rule kind continues a valid template to 20-40 segments (accepted or refused, never a panic); after a refused registration the refused rule's own paths and the base paths under its verbs must answer as before. Non-trivial")
_amend("C17", "rule", "Non-trivial", "Caller buffers of 0-4096 bytes incl. 1024-3000, and for a third of the protobuf messages a size placed relative to that capacity (C-1 .. 2C+C/4+1). Non-trivial")

# round 12
_amend("C11", "rule", "Non-trivial", "Backend B2 is built from a newer svca.proto in which SvcA.Ping has one more binding: while B2 is registered that route must answer, by a live owner. Non-trivial")
_amend("C12", "rule", "TestPropStress (readers", "TestPropStress (a third writer owns connection B2, so connection registrations and removals overlap each other; readers")
_amend("C15", "rule", "Non-trivial", "gRPC-web-text (base64 framing) is among the cancellation transports. Non-trivial")
_amend("C16", "rule", "Non-trivial", "An accepted binding with a body mapping is also served JSON bodies of every shape (object, string, number): never a panic. Non-trivial")
_amend("C18", "rule", "Non-trivial", "The stats handler rewrites the metadata maps its events carry (it owns them) while every handler insists on one request header: the RPC must not notice. Non-trivial")
_amend("C20", "rule", "Non-trivial", "The same extra-handler option values also build a second server on another mount: neither server may serve the other's prefix. Non-trivial")

# round 13
_amend("C01", "rule", "Non-trivial", "Every odd-numbered service declares a streaming method Feed (with a rule of its own, POST /rt-feed/svcN/{name}) BEFORE its unary method; Feed's bindings are probed and must never reach the unary method. Non-trivial")
_amend("C03", "rule", "Non-trivial", "One case in fifteen binds the same rule as a WebSocket rule (URL part in the handshake, JSON body as the first text frame, in-memory connection). Non-trivial")
_amend("C04", "rule", "Non-trivial", "A third of the handlers that set header metadata include the key content-type (text/plain, the other codec's type, ...): the response Content-Type must still name the codec of the bytes. Non-trivial")
_amend("C09", "rule", "Non-trivial", "Handler status texts include bytes that are not UTF-8, the empty and a 5 kB text; query values include %ff-style bytes on typed fields; Accept may name either binary codec. Non-trivial")
_amend("C10", "rule", "Non-trivial", "One metadata key in four looks like a protocol header without being one (grpc-*, grpc-trace*, content-*, te-*): every key the script sent is compared. A third of the HTTP-front requests carry the headers an HTTP/1.1 client adds about its own connection (Connection: keep-alive/close, Keep-Alive, Proxy-Connection). Non-trivial")
_amend("C13", "rule", "release order drawn;", "release order drawn; every streaming handler hands SetTrailer one long-lived MD shared by all calls and then its own id, and each response's trailers must be exactly that;")
_amend("C14", "rule", "Non-trivial", "Half of the handlers keep using the metadata.MD objects they handed over (values overwritten in place, keys added after each call; grpc copies what it is given), a quarter pass one long-lived MD to their first SetTrailer call and are served twice; key names include ones that look like protocol headers without being reserved (grpc-custom, grpc-trace-bin, content-typex). Non-trivial")
_amend("C18", "rule", "Non-trivial", "One HTTP request in eight carries a message that reads fine but does not decode (the k-th of the body): no InPayload for a message nobody received. Non-trivial")
_amend("C19", "rule", "Non-trivial", "In one healthz case of eight the health service lives on a backend reached through RegisterConn (discovered by reflection) instead of on the mux. Non-trivial")

# round 14
_amend("C02", "rule", "Non-trivial", "Every third request is preceded by one the mux has to refuse (a path beyond the token limit or with a character outside the documented set): earlier traffic says nothing about the next request. Non-trivial")
_amend("C04", "rule", "Non-trivial", "A third of the routes reply with, or select through response_body, a well-known type whose JSON form is not an object (Timestamp, Duration, FieldMask, wrappers; often zero-valued). Non-trivial")
_amend("C07", "rule", "Non-trivial", "A third of the WebSocket cases use a bidi method whose handler speaks first (a greeting before its first receive). Non-trivial")
_amend("C10", "rule", "Non-trivial", "The HTTP front delivers its request body in 1-5 reads of drawn sizes, in a third of the cases as (length-delimited) protobuf, and like the gRPC front under an 8 s call deadline (a call still running then is the violation proxied-call-hangs). Non-trivial")
_amend("C15", "rule", "Non-trivial", "A unary method whose handler holds the call without touching the response (point unary-idle), reached by a plain or a gzip-compressed chunked request whose terminating chunk arrives 60 ms after its last data chunk. Non-trivial")
_amend("C16", "rule", "Non-trivial", "The nested additional binding sits at any position among 2-4 siblings (valid siblings may follow it). Non-trivial")
_amend("C18", "rule", "Non-trivial", "One handler in six uses the header API again after its headers went out (SetHeader after SendHeader / after its first reply) and returns the refusal: the same with every option subset. Non-trivial")

# round 15 (ten properties)
_amend("C04", "rule", "Non-trivial", "A quarter of the muxes register a codec of their own under a non-default type (application/x-protobuf), which Accept may name. Non-trivial")

# native coverage-guided fuzzing of the same generators (thorough tier only)
for _k, _t in (("C01", "FuzzRoute"), ("C03", "FuzzTranscode"), ("C16", "FuzzRegister"), ("C17", "FuzzCodec")):
    PROPS[_k]["fuzz"] = {"target": _t, "seconds": 120}
    PROPS[_k]["technique"] += "; the thorough tier also drives the same generator with Go's native coverage-guided fuzzer (rapid.MakeFuzz, 120 s on all cores)"
