"""Per-property configuration for run.py.

stages: list of {run: test regexp, quick: (rapid checks, shards), thorough: (checks, shards), race: bool}
"""

HOOK_COMMITS = ["60a3272"]

NOT_APPLICABLE = {}

PROPS = {
    "C07": {
        "pkg": "c07",
        "stages": [{"run": "^TestProp$", "quick": (4000, 2), "thorough": (40000, 16)}],
        "rule": "rapid draws a rule (verb x 1-2 path variables on top-level/nested string and integer fields x "
                "sub-pattern x body none/*/book) and a request whose path captures v1 while a competing v2 is sent "
                "through the query (proto or JSON key, once or twice) and/or the JSON/protobuf body; oracle: the handler's "
                "message carries v1 in every path-bound field and every other field as sent. Non-trivial = the request "
                "was delivered to the handler with >=1 competing channel; distinct = (verb, body, codec, suffix, per "
                "variable field/pattern/channels, key spelling, repetition).",
        "technique": "property-based testing (rapid): generated rule x competing-channel requests against a protojson-referee oracle",
        "level_text": "Generated-input search: thousands of (rule, request) pairs in which every path-bound field is contested "
                      "through the query and/or body; exact oracle (delivered field == path capture). Exploration only: no proof of absence.",
        "level_note": "Trusts protojson as value referee and httptest.ResponseRecorder as the transport; rules restricted to the schema in harness/c07.",
        "assumptions": [
            "requests are driven in-process through Mux.ServeHTTP with httptest.ResponseRecorder",
            "a request that larking rejects instead of delivering is not a violation of this property (counted as class 'rejected')",
            "expected values come from protojson (referee), not from larking's parseParam",
        ],
    },
}
