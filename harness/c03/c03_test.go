// C03 — transcoded request reconstruction.
package c03

import (
	"bytes"
	"compress/gzip"
	"context"
	"fmt"
	"io"
	"net"
	"net/http"
	"net/http/httptest"
	"net/url"
	"os"
	"strings"
	"sync"
	"testing"
	"time"

	"github.com/gobwas/ws"
	"github.com/gobwas/ws/wsutil"
	"google.golang.org/grpc"

	"google.golang.org/genproto/googleapis/api/annotations"
	"google.golang.org/protobuf/encoding/protojson"
	"google.golang.org/protobuf/proto"
	"google.golang.org/protobuf/reflect/protoreflect"
	"google.golang.org/protobuf/types/dynamicpb"
	"larking.io/larking"
	"pgregory.net/rapid"

	"verif/drive"
	"verif/dyn"
	"verif/evid"
	"verif/ref"
	"verif/uni"
)

const prop = "C03"

func TestMain(m *testing.M) {
	code := m.Run()
	evid.Flush()
	os.Exit(code)
}

// Neg describes the negative part of a case: one URL-borne singular leaf
// whose text was replaced.
type Neg struct {
	Field  string `json:"field"` // dotted proto names
	Text   string `json:"text"`
	Family string `json:"family"`
}

// Case is a fully split request plus the message it was split from.
type Case struct {
	WS          bool     `json:"ws"`     // the rule is a WebSocket binding (custom kind "websocket"): path and query travel in the handshake URL, the JSON body as the first text frame
	Stream      bool     `json:"stream"` // the method is client-streaming: the body is a stream whose first (only) message is M's body part
	Later       bool     `json:"later"`  // another service is registered on the mux after the one under test
	Verb        string   `json:"verb"`
	Tmpl        string   `json:"tmpl"`
	BodySel     string   `json:"body_sel"` // "", "*", field
	Path        string   `json:"path"`
	RawQuery    string   `json:"raw_query"`
	ContentType string   `json:"content_type"`
	Accept      string   `json:"accept"` // response negotiation must not influence how the request is decoded
	Gzip        bool     `json:"gzip"`
	Body        []byte   `json:"body"`
	Chunks      []int    `json:"chunks"`
	EOFWithLast bool     `json:"eof_with_last"`
	Want        []byte   `json:"want"` // wire form of the expected message
	WantText    string   `json:"want_text"`
	Neg         *Neg     `json:"neg,omitempty"`
	Classes     []string `json:"classes"`
}

func httpRule(c Case) *annotations.HttpRule {
	r := &annotations.HttpRule{Body: c.BodySel}
	if c.WS {
		r.Pattern = &annotations.HttpRule_Custom{Custom: &annotations.CustomHttpPattern{Kind: "websocket", Path: c.Tmpl}}
		return r
	}
	switch c.Verb {
	case "GET":
		r.Pattern = &annotations.HttpRule_Get{Get: c.Tmpl}
	case "PUT":
		r.Pattern = &annotations.HttpRule_Put{Put: c.Tmpl}
	case "POST":
		r.Pattern = &annotations.HttpRule_Post{Post: c.Tmpl}
	case "DELETE":
		r.Pattern = &annotations.HttpRule_Delete{Delete: c.Tmpl}
	case "PATCH":
		r.Pattern = &annotations.HttpRule_Patch{Patch: c.Tmpl}
	}
	return r
}

func normalise(m proto.Message, bodySel string) {
	if bodySel == "" || bodySel == "*" {
		return
	}
	r := m.ProtoReflect()
	fd := r.Descriptor().Fields().ByName(protoreflect.Name(bodySel))
	if fd != nil && r.Has(fd) && proto.Size(r.Get(fd).Message().Interface()) == 0 {
		r.Clear(fd)
	}
}

// Check sends the request and applies the oracle.
func Check(c Case) (vs []evid.Violation, delivered bool) {
	svc := dyn.Svc("C3", dyn.MethodSpec{Name: "Do", In: ".un.All", Out: ".un.All", Rule: httpRule(c), ClientStream: c.Stream})
	w := uni.WorldWith(svc, dyn.Svc("C3Later", dyn.MethodSpec{Name: "Other", In: ".un.All", Out: ".un.All"}))
	var got []proto.Message
	var gotMu sync.Mutex
	sd := w.ServiceDesc("un.C3", func(ctx context.Context, fm string, req *dynamicpb.Message) (proto.Message, error) {
		gotMu.Lock()
		defer gotMu.Unlock()
		got = append(got, proto.Clone(req))
		return dynamicpb.NewMessage(req.Descriptor()), nil
	}, func(full string, in, out protoreflect.MessageDescriptor, ss grpc.ServerStream) error {
		for i := 0; ; i++ {
			m := dynamicpb.NewMessage(in)
			if err := ss.RecvMsg(m); err != nil {
				if err != io.EOF {
					return err
				}
				break
			}
			if i == 0 {
				got = append(got, proto.Clone(m))
			}
		}
		return ss.SendMsg(dynamicpb.NewMessage(out))
	})
	mux, err := larking.NewMux(larking.FilesOption(w.Files))
	if err != nil {
		panic(err)
	}
	if err := mux.VerifRegisterService(sd, nil); err != nil {
		return []evid.Violation{evid.V("register", "", "rule %s %s body=%q rejected: %v", c.Verb, c.Tmpl, c.BodySel, err)}, false
	}
	if c.Later {
		// a later registration clones the routing state: the copy must carry every binding unchanged
		later := w.ServiceDesc("un.C3Later", func(ctx context.Context, fm string, req *dynamicpb.Message) (proto.Message, error) { return req, nil }, nil)
		if err := mux.VerifRegisterService(later, nil); err != nil {
			panic(err)
		}
	}
	hdr := http.Header{}
	if c.ContentType != "" {
		hdr.Set("Content-Type", c.ContentType)
	}
	if c.Gzip {
		hdr.Set("Content-Encoding", "gzip")
	}
	if c.Accept != "" {
		hdr.Set("Accept", c.Accept)
	}
	var req *http.Request
	if len(c.Body) > 0 {
		rd := &drive.ScriptReader{Data: c.Body, Chunks: append([]int{}, c.Chunks...), EOFWithLast: c.EOFWithLast}
		cl := int64(len(c.Body))
		if c.Stream {
			cl = -1
		}
		req = drive.Request(c.Verb, c.Path, c.RawQuery, hdr, rd, cl)
	} else {
		req = drive.Request(c.Verb, c.Path, c.RawQuery, hdr, nil, 0)
	}
	var res drive.Result
	if c.WS {
		res.Rec = httptest.NewRecorder()
		res.Rec.Code = 0
		if problem := wsExchange(mux, c); problem != "" {
			return []evid.Violation{evid.V("ws", "ws-exchange", "websocket %s?%s: %s", c.Path, c.RawQuery, problem)}, false
		}
		gotMu.Lock()
		defer gotMu.Unlock()
	} else {
		res = drive.Serve(mux, req)
	}
	if res.Panic != nil {
		return []evid.Violation{evid.V("panic", res.PanicSig(), "panic: %v\n%s", res.Panic, res.Stack)}, false
	}
	md := w.MsgDesc("un.All")
	want := dynamicpb.NewMessage(md)
	if err := proto.Unmarshal(c.Want, want); err != nil {
		panic(err)
	}
	normalise(want, c.BodySel)
	delivered = len(got) > 0
	if delivered {
		normalise(got[0], c.BodySel)
	}

	if c.Neg == nil {
		if !delivered {
			return []evid.Violation{evid.V("not-delivered", "not-delivered:"+kindsSig(c), "expressible message not delivered: %s %s?%s -> %d %s; want {%v}", c.Verb, c.Path, c.RawQuery, res.Rec.Code, res.Rec.Body.String(), want)}, false
		}
		if !proto.Equal(got[0], want) {
			return []evid.Violation{evid.V("message-differs", "message-differs:"+diffField(got[0], want), "%s %s?%s body(%s)=%q: handler got {%v} want {%v}", c.Verb, c.Path, c.RawQuery, c.ContentType, trunc(c.Body), got[0], want)}, true
		}
		return nil, true
	}
	// Negative case: protojson is the referee for the replaced text.
	fds := ref.ResolvePath(md, strings.Split(c.Neg.Field, "."))
	readings := ref.Referee(md, fds, c.Neg.Text)
	if !delivered {
		if res.Rec.Code == 200 {
			vs = append(vs, evid.V("rejected-without-error", "", "handler not run but status 200"))
		}
		return vs, false
	}
	if len(readings) == 0 {
		gv, _ := ref.GetPath(got[0].ProtoReflect(), fds)
		return []evid.Violation{evid.V("invalid-text-coerced", "invalid-text-coerced:"+fds[len(fds)-1].Kind().String()+":"+c.Neg.Family,
			"text %q is not valid for %s (%s) but the request was delivered with value %v", c.Neg.Text, c.Neg.Field, fds[len(fds)-1].Kind(), gv)}, true
	}
	ok := false
	for _, r := range readings {
		e := proto.Clone(want)
		v, _ := ref.GetPath(r.ProtoReflect(), fds)
		ref.SetPath(e.ProtoReflect(), fds, v)
		if proto.Equal(e, got[0]) {
			ok = true
		}
	}
	if !ok {
		gv, _ := ref.GetPath(got[0].ProtoReflect(), fds)
		return []evid.Violation{evid.V("noncanonical-text-miscoerced", "noncanonical-text-miscoerced:"+fds[len(fds)-1].Kind().String()+":"+c.Neg.Family,
			"text %q for %s delivered as %v; protojson reads it as %v; got {%v}", c.Neg.Text, c.Neg.Field, gv, readings, got[0])}, true
	}
	return nil, true
}

// wsExchange dials the rule over a real connection, sends the body (if the rule maps one) as one text
// frame, and waits for the server's close frame. It reports only what keeps the harness from talking to
// the server; whether the message was delivered is read from the handler afterwards.
func wsExchange(mux http.Handler, c Case) string {
	mem := drive.Mem()
	mem.Use(mux)
	u := "ws://c03.test" + (&url.URL{Path: c.Path}).EscapedPath()
	if c.RawQuery != "" {
		u += "?" + c.RawQuery
	}
	ctx, cancel := context.WithTimeout(context.Background(), 10*time.Second)
	defer cancel()
	conn, br, _, err := ws.Dialer{NetDial: mem.Dial}.Dial(ctx, u)
	if err != nil {
		return "" // refused at the handshake: nothing was delivered
	}
	defer conn.Close()
	defer conn.SetDeadline(time.Time{}) // (a pending deadline timer would keep the connection's buffers alive)
	conn.SetDeadline(time.Now().Add(10 * time.Second))
	var rd io.Reader = conn
	if br != nil {
		rd = br
	}
	if len(c.Body) > 0 {
		if wsutil.WriteClientMessage(conn, ws.OpText, c.Body) != nil {
			return ""
		}
	}
	for {
		f, err := ws.ReadFrame(rd)
		if err != nil {
			if ne, ok := err.(net.Error); ok && ne.Timeout() {
				return "no close frame within 10 s"
			}
			return ""
		}
		if f.Header.OpCode == ws.OpClose {
			return ""
		}
	}
}

func trunc(b []byte) []byte {
	if len(b) > 300 {
		return b[:300]
	}
	return b
}

func kindsSig(c Case) string { return c.BodySel + "|" + c.ContentType }

func diffField(a, b proto.Message) string {
	ar, br := a.ProtoReflect(), b.ProtoReflect()
	fds := ar.Descriptor().Fields()
	for i := 0; i < fds.Len(); i++ {
		fd := fds.Get(i)
		x, y := dynamicpb.NewMessage(ar.Descriptor()), dynamicpb.NewMessage(ar.Descriptor())
		if ar.Has(fd) {
			x.Set(fd, ar.Get(fd))
		}
		if br.Has(fd) {
			y.Set(fd, br.Get(fd))
		}
		if !proto.Equal(x, y) {
			return string(fd.Name())
		}
	}
	return "?"
}

// ---------------------------------------------------------------------------
// generator

var pathFields = []string{"f_int32", "f_int64", "f_uint32", "f_uint64", "f_sint32", "f_sint64", "f_fixed32", "f_fixed64", "f_sfixed32", "f_sfixed64",
	"f_bool", "f_string", "f_bytes", "f_enum", "f_double", "f_float", "path_name", "nest.sub_title", "nest.big_num", "nest.leaf.label_text",
	"nest.leaf.count", "nest.leaf.color", "nest.ratio", "w_int32", "w_bool", "dur", "o_string", "o_int64"}

var negTexts = map[string][]string{
	"int":     {"", "abc", "1.5", "1e3", "1.0", "+1", "0x10", " 1", "1 ", "01", "-", "--1", "1_000", "٣", "\"5\"", "\"abc\"", "null", "true", "[1]", "{}", "1,2"},
	"int32":   {"2147483648", "-2147483649", "99999999999999999999"},
	"uint":    {"-1", "-0"},
	"uint32":  {"4294967296"},
	"int64":   {"9223372036854775808", "-9223372036854775809"},
	"uint64":  {"18446744073709551616"},
	"float":   {"", "abc", "1e999", "-1e999", ".5", "5.", "1e", "0x1p3", "NaN", "Infinity", "-Infinity", "inf", "+1.5", "1,5", "\"1.5\"", "null", "--1"},
	"float32": {"1e39", "3.5e38"},
	"bool":    {"", "TRUE", "True", "1", "0", "yes", "t", "\"true\"", "null", "truee"},
	"enum":    {"", "red", "Red", "PURPLE", "RED ", "1.5", "99999999999", "\"RED\"", "null", "0x1"},
	"bytes":   {"a", "abcde", "!!!!", "ab=d", "a b", "====", "YQ=", "YQ===", "YW-/", "\"YQ==\""},
	"ts":      {"", "2020", "2020-01-01", "2020-01-01T00:00:00", "2020-13-01T00:00:00Z", "0000-01-01T00:00:00Z", "10000-01-01T00:00:00Z", "1600000000", "2020-01-01T00:00:00.Z", "\"2020-01-01T00:00:00Z", "2020-01-01t00:00:00z"},
	"dur":     {"", "1", "1.5", "s", "1m", "1.s", "1.0000000001s", "315576000001s", "--1s", "1 s", "1S", "\"1s"},
}

func negFamily(fd protoreflect.FieldDescriptor) []string {
	switch fd.Kind() {
	case protoreflect.Int32Kind, protoreflect.Sint32Kind, protoreflect.Sfixed32Kind:
		return []string{"int", "int32"}
	case protoreflect.Int64Kind, protoreflect.Sint64Kind, protoreflect.Sfixed64Kind:
		return []string{"int", "int64"}
	case protoreflect.Uint32Kind, protoreflect.Fixed32Kind:
		return []string{"int", "uint", "uint32"}
	case protoreflect.Uint64Kind, protoreflect.Fixed64Kind:
		return []string{"int", "uint", "uint64"}
	case protoreflect.FloatKind:
		return []string{"float", "float32"}
	case protoreflect.DoubleKind:
		return []string{"float"}
	case protoreflect.BoolKind:
		return []string{"bool"}
	case protoreflect.EnumKind:
		return []string{"enum"}
	case protoreflect.BytesKind:
		return []string{"bytes"}
	case protoreflect.MessageKind:
		switch fd.Message().Name() {
		case "Timestamp":
			return []string{"ts"}
		case "Duration":
			return []string{"dur"}
		case "Int32Value":
			return []string{"int", "int32"}
		case "Int64Value":
			return []string{"int", "int64"}
		case "UInt32Value":
			return []string{"int", "uint", "uint32"}
		case "UInt64Value":
			return []string{"int", "uint", "uint64"}
		case "FloatValue":
			return []string{"float", "float32"}
		case "DoubleValue":
			return []string{"float"}
		case "BoolValue":
			return []string{"bool"}
		case "BytesValue":
			return []string{"bytes"}
		}
	}
	return nil
}

func pathSafe(s string) bool {
	if s == "" {
		return false
	}
	for _, r := range s {
		if !strings.ContainsRune("abcdefghijklmnopqrstuvwxyzABCDEFGHIJKLMNOPQRSTUVWXYZ0123456789.-_~!$&'()*+,;=@", r) {
			return false
		}
	}
	return true
}

type pathVar struct {
	field   string
	fds     []protoreflect.FieldDescriptor
	pattern string
	text    string
}

func genCase(t *rapid.T) Case {
	base := uni.Base()
	md := base.MsgDesc("un.All")
	var c Case
	c.BodySel = rapid.SampledFrom([]string{"*", "*", "", "", "body_leaf", "nest"}).Draw(t, "bodySel")
	if c.BodySel == "" {
		c.Verb = rapid.SampledFrom([]string{"GET", "DELETE", "GET", "POST"}).Draw(t, "verb")
	} else {
		c.Verb = rapid.SampledFrom([]string{"POST", "PUT", "PATCH"}).Draw(t, "verb")
	}
	// variables
	nv := rapid.SampledFrom([]int{0, 1, 1, 2}).Draw(t, "nvars")
	var vars []pathVar
	used := map[string]bool{}
	oneofUsed := false
	for i := 0; i < nv; i++ {
		f := rapid.SampledFrom(pathFields).Filter(func(s string) bool {
			if used[s] || (c.BodySel == "nest" && strings.HasPrefix(s, "nest.")) {
				return false
			}
			if strings.HasPrefix(s, "o_") && oneofUsed {
				return false
			}
			return true
		}).Draw(t, "pfield")
		used[f] = true
		if strings.HasPrefix(f, "o_") {
			oneofUsed = true
		}
		v := pathVar{field: f, fds: ref.ResolvePath(md, strings.Split(f, "."))}
		if v.fds[len(v.fds)-1].Kind() == protoreflect.StringKind {
			opts := []string{"", "", "books/*"}
			if i == nv-1 {
				opts = append(opts, "**", "items/**")
			}
			v.pattern = rapid.SampledFrom(opts).Draw(t, "pattern")
		}
		vars = append(vars, v)
	}
	// message
	prof := uni.Profile{NoInf: c.BodySel != "*", URLOnly: c.BodySel != "*", Skip: map[string]bool{}}
	if c.BodySel != "*" {
		prof.NoControl = false
	}
	for _, v := range vars {
		prof.Skip[v.field] = true
	}
	if oneofUsed {
		prof.Skip["o_string"], prof.Skip["o_int64"], prof.Skip["o_leaf"] = true, true, true
	}
	if rapid.IntRange(0, 9).Draw(t, "big") == 0 {
		prof.MaxBytes = 400
	}
	m := uni.GenMessage(t, md, prof)
	if c.BodySel != "*" {
		// URL-borne parts cannot express +-Inf text via encoding/json; body field part may.
		uni.PruneEmpty(m.ProtoReflect())
	}
	// path-bound values
	for i := range vars {
		v := &vars[i]
		leaf := v.fds[len(v.fds)-1]
		var val protoreflect.Value
		switch {
		case leaf.Kind() == protoreflect.StringKind:
			seg := func(l string) string { return uni.GenScalar(t, leaf, uni.Profile{PathSafe: true}, l).String() }
			var s string
			switch v.pattern {
			case "":
				s = seg("pv")
			case "books/*":
				s = "books/" + seg("pv")
			case "**":
				s = seg("pv") + "/" + seg("pv2")
			case "items/**":
				s = "items/" + seg("pv")
				if rapid.Bool().Draw(t, "more") {
					s += "/" + seg("pv2")
				}
			}
			val = protoreflect.ValueOfString(s)
			v.text = s
		case leaf.Kind() == protoreflect.BytesKind:
			b := rapid.SliceOfN(rapid.Byte(), 1, 9).Draw(t, "pbytes")
			val = protoreflect.ValueOfBytes(b)
			v.text = uni.TextOf(leaf, val, 2+rapid.IntRange(0, 1).Draw(t, "pb64"))
		case leaf.Message() != nil:
			tmp := dynamicpb.NewMessage(leaf.Message())
			inner := uni.GenMessage(t, md, uni.Profile{NoInf: true, FillProb: 100, URLOnly: true, Skip: skipAllBut(md, leaf)})
			if inner.Has(leaf) {
				proto.Merge(tmp, inner.Get(leaf).Message().Interface())
			}
			val = protoreflect.ValueOfMessage(tmp)
			v.text = uni.TextOf(leaf, val, 0)
		default:
			val = uni.GenScalar(t, leaf, uni.Profile{NoInf: true}, "pscalar")
			v.text = uni.TextOf(leaf, val, rapid.IntRange(0, 1).Draw(t, "pvariant"))
		}
		ref.SetPath(m.ProtoReflect(), v.fds, val)
	}
	want, _ := proto.MarshalOptions{Deterministic: true}.Marshal(m)
	c.Want = want
	c.WantText = fmt.Sprint(m)

	// template + path
	var tb, pb strings.Builder
	tb.WriteString("/c3")
	pb.WriteString("/c3")
	for i, v := range vars {
		if i == 1 {
			tb.WriteString("/mid")
			pb.WriteString("/mid")
		}
		tb.WriteString("/{" + v.field)
		if v.pattern != "" {
			tb.WriteString("=" + v.pattern)
		}
		tb.WriteString("}")
		pb.WriteString("/" + v.text)
	}
	if rapid.IntRange(0, 3).Draw(t, "tverb") == 0 {
		tb.WriteString(":act")
		pb.WriteString(":act")
	}
	c.Tmpl, c.Path = tb.String(), pb.String()

	// remainder
	r := proto.Clone(m).(*dynamicpb.Message)
	for _, v := range vars {
		clearPath(r.ProtoReflect(), v.fds)
	}
	var bodyMsg proto.Message
	switch c.BodySel {
	case "*":
		bodyMsg = r
		r = dynamicpb.NewMessage(md)
	case "":
	default:
		fd := md.Fields().ByName(protoreflect.Name(c.BodySel))
		if r.Has(fd) {
			bodyMsg = proto.Clone(r.Get(fd).Message().Interface())
		} else {
			bodyMsg = dynamicpb.NewMessage(fd.Message())
		}
		r.Clear(fd)
	}
	variant := rapid.IntRange(0, 7).Draw(t, "variant")
	leaves := uni.Flatten(r.ProtoReflect(), nil, variant)
	// negative?
	type cand struct {
		inPath bool
		idx    int
	}
	if rapid.IntRange(0, 3).Draw(t, "negative") == 0 {
		var cands []cand
		for i, v := range vars {
			if negFamily(v.fds[len(v.fds)-1]) != nil {
				cands = append(cands, cand{true, i})
			}
		}
		for i, l := range leaves {
			leaf := l.Path[len(l.Path)-1]
			if !leaf.IsList() && negFamily(leaf) != nil {
				cands = append(cands, cand{false, i})
			}
		}
		if len(cands) > 0 {
			cd := cands[rapid.IntRange(0, len(cands)-1).Draw(t, "negcand")]
			var fds []protoreflect.FieldDescriptor
			if cd.inPath {
				fds = vars[cd.idx].fds
			} else {
				fds = leaves[cd.idx].Path
			}
			fams := negFamily(fds[len(fds)-1])
			fam := rapid.SampledFrom(fams).Draw(t, "negfam")
			texts := negTexts[fam]
			if cd.inPath {
				var ok []string
				for _, s := range texts {
					if pathSafe(s) {
						ok = append(ok, s)
					}
				}
				texts = ok
			}
			if len(texts) > 0 {
				txt := rapid.SampledFrom(texts).Draw(t, "negtext")
				c.Neg = &Neg{Field: uni.Key(fds, false), Text: txt, Family: fam}
				// the expected message omits the replaced leaf
				wm := proto.Clone(m).(*dynamicpb.Message)
				clearPath(wm.ProtoReflect(), fds)
				if c.BodySel != "*" {
					pruneAncestors(wm.ProtoReflect(), fds) // URL-borne parents vanish with their last leaf
				}
				// keep body field presence semantics identical to positive cases
				c.Want, _ = proto.MarshalOptions{Deterministic: true}.Marshal(wm)
				c.WantText = fmt.Sprint(wm)
				if cd.inPath {
					vars[cd.idx].text = txt
					var pb2 strings.Builder
					pb2.WriteString("/c3")
					for i, v := range vars {
						if i == 1 {
							pb2.WriteString("/mid")
						}
						pb2.WriteString("/" + v.text)
					}
					if strings.HasSuffix(c.Tmpl, ":act") {
						pb2.WriteString(":act")
					}
					c.Path = pb2.String()
				} else {
					leaves[cd.idx].Text = txt
				}
			}
		}
	}
	// query: shuffle keys, keep order inside a key
	type kv struct{ k, v string }
	var groups [][]kv
	index := map[string]int{}
	jsonMask := rapid.Uint32().Draw(t, "jsonMask")
	for i, l := range leaves {
		id := uni.Key(l.Path, false)
		gi, ok := index[id]
		if !ok {
			gi = len(groups)
			index[id] = gi
			groups = append(groups, nil)
		}
		k := uni.Key(l.Path, jsonMask&(1<<(uint(gi)%32)) != 0)
		_ = i
		groups[gi] = append(groups[gi], kv{k, l.Text})
	}
	if len(groups) > 1 {
		perm := rapid.Permutation(seq(len(groups))).Draw(t, "qperm")
		ng := make([][]kv, len(groups))
		for i, p := range perm {
			ng[i] = groups[p]
		}
		groups = ng
	}
	var qs []string
	for _, g := range groups {
		for _, e := range g {
			qs = append(qs, url.QueryEscape(e.k)+"="+url.QueryEscape(e.v))
		}
	}
	c.RawQuery = strings.Join(qs, "&")

	// body
	if bodyMsg != nil {
		codec := rapid.SampledFrom([]string{"json", "json", "proto", "octet", "default-json"}).Draw(t, "codec")
		switch codec {
		case "json", "default-json":
			if codec == "json" {
				c.ContentType = "application/json"
			}
			c.Body, _ = protojson.Marshal(bodyMsg)
			if string(c.Body) == "{}" && rapid.Bool().Draw(t, "omitEmpty") {
				c.Body = nil
			}
		case "proto":
			c.ContentType = "application/protobuf"
			c.Body, _ = proto.Marshal(bodyMsg)
		case "octet":
			c.ContentType = "application/octet-stream"
			c.Body, _ = proto.Marshal(bodyMsg)
		}
		if c.Neg == nil && len(c.Body) > 0 && rapid.IntRange(0, 7).Draw(t, "stream") == 0 {
			// the same message as the first message of a client stream (JSON: concatenated values;
			// protobuf: length-delimited)
			c.Stream = true
			c.Classes = append(c.Classes, "client-stream")
			if codec == "proto" || codec == "octet" {
				var sb bytes.Buffer
				larking.CodecProto{}.WriteNext(&sb, c.Body)
				c.Body = sb.Bytes()
			}
		}
		if len(c.Body) > 0 && rapid.IntRange(0, 3).Draw(t, "gzip") == 0 {
			// one gzip member, or the same bytes as two concatenated members (RFC 1952 2.2: a gzip
			// file is a series of members; pigz, bgzip and per-chunk writers produce them)
			cut := len(c.Body)
			if rapid.IntRange(0, 2).Draw(t, "gzipMembers") == 0 {
				cut = rapid.IntRange(0, len(c.Body)).Draw(t, "gzipCut")
				c.Classes = append(c.Classes, "gzip-multi-member")
			}
			var buf bytes.Buffer
			for _, part := range [][]byte{c.Body[:cut], c.Body[cut:]} {
				if len(part) == 0 && cut == len(c.Body) && buf.Len() > 0 {
					continue // single member
				}
				zw := gzip.NewWriter(&buf)
				zw.Write(part)
				zw.Close()
			}
			c.Body = buf.Bytes()
			c.Gzip = true
		}
		if len(c.Body) > 0 {
			n := rapid.IntRange(0, 4).Draw(t, "nchunks")
			for i := 0; i < n; i++ {
				c.Chunks = append(c.Chunks, rapid.IntRange(1, 1+len(c.Body)/2).Draw(t, "chunk"))
			}
			c.EOFWithLast = rapid.Bool().Draw(t, "eofWithLast")
		}
	}
	if !c.Stream && !c.Gzip && (len(c.Body) == 0 || c.ContentType == "application/json" || c.ContentType == "") && rapid.IntRange(0, 39).Draw(t, "ws") == 0 {
		// the same rule as a WebSocket binding: the URL part travels in the handshake, the body as a JSON text frame
		c.WS = true
		c.Chunks, c.EOFWithLast = nil, false
		if c.BodySel != "" && len(c.Body) == 0 {
			c.Body = []byte("{}") // a binding with a body waits for its first frame
		}
		c.Classes = append(c.Classes, "websocket-binding")
	}
	c.Later = rapid.IntRange(0, 3).Draw(t, "later") == 0
	if c.Later {
		c.Classes = append(c.Classes, "later-registration-on-the-mux")
	}
	c.Accept = rapid.SampledFrom([]string{"", "", "", "application/json", "application/protobuf", "*/*", "application/octet-stream;q=0.5, application/json;q=0.1", "text/html"}).Draw(t, "accept")
	// classes
	c.Classes = append(c.Classes, "body="+c.BodySel, "accept="+c.Accept, fmt.Sprintf("vars=%d", len(vars)), "ct="+c.ContentType)
	if c.Gzip {
		c.Classes = append(c.Classes, "gzip")
	}
	if c.Neg != nil {
		c.Classes = append(c.Classes, "negative", "neg:"+c.Neg.Family)
	}
	if c.RawQuery != "" {
		c.Classes = append(c.Classes, "has-query")
	}
	if len(c.Body) > 0 {
		c.Classes = append(c.Classes, "has-body")
	}
	return c
}

func skipAllBut(md protoreflect.MessageDescriptor, keep protoreflect.FieldDescriptor) map[string]bool {
	out := map[string]bool{}
	fds := md.Fields()
	for i := 0; i < fds.Len(); i++ {
		if fds.Get(i) != keep {
			out[string(fds.Get(i).Name())] = true
		}
	}
	return out
}

func clearPath(m protoreflect.Message, fds []protoreflect.FieldDescriptor) {
	for i, fd := range fds {
		if i == len(fds)-1 {
			m.Clear(fd)
			return
		}
		if !m.Has(fd) {
			return
		}
		m = m.Mutable(fd).Message()
	}
}

// pruneAncestors clears the ancestors of fds' leaf that became empty.
func pruneAncestors(m protoreflect.Message, fds []protoreflect.FieldDescriptor) {
	for depth := len(fds) - 1; depth >= 1; depth-- {
		cur := m
		ok := true
		for _, fd := range fds[:depth-1] {
			if !cur.Has(fd) {
				ok = false
				break
			}
			cur = cur.Mutable(fd).Message()
		}
		if !ok {
			continue
		}
		fd := fds[depth-1]
		if cur.Has(fd) && proto.Size(cur.Get(fd).Message().Interface()) == 0 {
			cur.Clear(fd)
		}
	}
}

func seq(n int) []int {
	out := make([]int, n)
	for i := range out {
		out[i] = i
	}
	return out
}

func TestProp(t *testing.T) {
	rapid.Check(t, func(t *rapid.T) {
		c := genCase(t)
		vs, delivered := Check(c)
		nontriv := c.Neg != nil
		if !nontriv {
			// every channel the rule uses carries something
			nontriv = (c.BodySel == "" || len(c.Body) > 0) && (c.BodySel == "*" || c.RawQuery != "" || strings.Count(c.Tmpl, "{") > 0)
		}
		key := ""
		if nontriv {
			key = strings.Join(c.Classes, "|") + "|" + queryKeys(c.RawQuery)
		}
		cl := append([]string{}, c.Classes...)
		if delivered {
			cl = append(cl, "delivered")
		} else {
			cl = append(cl, "rejected")
		}
		evid.Eval(key, cl...)
		if c.Neg != nil {
			evid.Sample("negative", c)
		} else {
			evid.Sample("positive", c)
		}
		evid.Report(t, prop, c, vs)
	})
}

func queryKeys(q string) string {
	var ks []string
	for _, kv := range strings.Split(q, "&") {
		k, _, _ := strings.Cut(kv, "=")
		ks = append(ks, k)
	}
	return strings.Join(ks, ",")
}

// FuzzTranscode is the native coverage-guided target (thorough tier): the same rule/message/split generator driven by the fuzzer's bytes.
func FuzzTranscode(f *testing.F) {
	f.Fuzz(rapid.MakeFuzz(func(t *rapid.T) {
		c := genCase(t)
		vs, _ := Check(c)
		if len(vs) > 0 && !evid.IsKnown(prop, vs[0].Sig) {
			t.Fatalf("property %s violated: %v\ncase: %+v", prop, vs[0], c)
		}
	}))
}

func TestReplay(t *testing.T) {
	path := os.Getenv("VERIF_REPLAY")
	if path == "" {
		t.Skip("VERIF_REPLAY not set")
	}
	var c Case
	if err := evid.LoadReplay(path, &c); err != nil {
		t.Fatal(err)
	}
	vs, _ := Check(c)
	evid.Report(t, prop, c, vs)
}
