package ref

import (
	"encoding/json"
	"strings"

	"google.golang.org/protobuf/encoding/protojson"
	"google.golang.org/protobuf/proto"
	"google.golang.org/protobuf/reflect/protoreflect"
	"google.golang.org/protobuf/types/dynamicpb"
)

// ResolvePath resolves a dotted field path by proto name or JSON name.
func ResolvePath(md protoreflect.MessageDescriptor, names []string) []protoreflect.FieldDescriptor {
	var out []protoreflect.FieldDescriptor
	for i, n := range names {
		if md == nil {
			return nil
		}
		fd := md.Fields().ByName(protoreflect.Name(n))
		if fd == nil {
			fd = md.Fields().ByJSONName(n)
		}
		if fd == nil {
			return nil
		}
		out = append(out, fd)
		if i < len(names)-1 {
			md = fd.Message()
		}
	}
	return out
}

// Referee asks protojson which values a URL text may denote for the leaf
// field of path: the text is tried as a raw JSON value and as a JSON string.
// It returns one message per accepted reading, each with only that leaf set
// (wrapped in a list for repeated leaves).
func Referee(md protoreflect.MessageDescriptor, path []protoreflect.FieldDescriptor, text string) []proto.Message {
	quoted, _ := json.Marshal(text)
	var out []proto.Message
	for _, form := range []string{text, string(quoted)} {
		if strings.TrimSpace(form) == "" {
			continue
		}
		js := form
		for i := len(path) - 1; i >= 0; i-- {
			fd := path[i]
			if i == len(path)-1 && fd.IsList() {
				js = "[" + js + "]"
			}
			key, _ := json.Marshal(fd.JSONName())
			js = "{" + string(key) + ":" + js + "}"
		}
		m := dynamicpb.NewMessage(md)
		if err := protojson.Unmarshal([]byte(js), m); err != nil {
			continue
		}
		dup := false
		for _, o := range out {
			if proto.Equal(o, m) {
				dup = true
			}
		}
		if !dup {
			out = append(out, m)
		}
	}
	return out
}

// SetPath sets leaf value v at path inside m (creating intermediate messages).
func SetPath(m protoreflect.Message, path []protoreflect.FieldDescriptor, v protoreflect.Value) {
	for i, fd := range path {
		if i == len(path)-1 {
			m.Set(fd, v)
			return
		}
		m = m.Mutable(fd).Message()
	}
}

// GetPath reads the leaf at path (zero Value if an intermediate is unset).
func GetPath(m protoreflect.Message, path []protoreflect.FieldDescriptor) (protoreflect.Value, bool) {
	for i, fd := range path {
		if i == len(path)-1 {
			return m.Get(fd), m.Has(fd)
		}
		if !m.Has(fd) {
			return protoreflect.Value{}, false
		}
		m = m.Get(fd).Message()
	}
	return protoreflect.Value{}, false
}
