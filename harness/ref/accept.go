package ref

import (
	"strconv"
	"strings"
)

// MediaRange is one element of an Accept header.
type MediaRange struct {
	Type, Sub string  // lower-cased
	Q         float64 // 1 if absent
	HasParams bool    // media-type parameters other than q (makes matching contested)
}

// Accept is a parsed Accept header (all lines).
type Accept struct {
	Ranges     []MediaRange
	WellFormed bool // every element follows RFC 7231 section 5.3.2
	MixedCase  bool // some type/subtype used upper-case letters
	EmptyElems bool // empty list elements (",,x"): legal to send-ignore, rarely sent
	HasExt     bool // accept-ext parameters after q (obsoleted by RFC 9110)
}

func isTchar(c byte) bool {
	switch {
	case c >= 'a' && c <= 'z', c >= 'A' && c <= 'Z', c >= '0' && c <= '9':
		return true
	}
	return strings.IndexByte("!#$%&'*+-.^_`|~", c) >= 0
}

func isToken(s string) bool {
	if s == "" {
		return false
	}
	for i := 0; i < len(s); i++ {
		if !isTchar(s[i]) {
			return false
		}
	}
	return true
}

func parseQ(s string) (float64, bool) {
	// qvalue = ( "0" [ "." 0*3DIGIT ] ) / ( "1" [ "." 0*3("0") ] )
	if s == "" || len(s) > 5 {
		return 0, false
	}
	if s[0] != '0' && s[0] != '1' {
		return 0, false
	}
	if len(s) > 1 {
		if s[1] != '.' {
			return 0, false
		}
		for i := 2; i < len(s); i++ {
			if s[i] < '0' || s[i] > '9' || (s[0] == '1' && s[i] != '0') {
				return 0, false
			}
		}
	}
	f, err := strconv.ParseFloat(s, 64)
	return f, err == nil
}

// ParseAccept parses the header lines per RFC 7231.
func ParseAccept(lines []string) Accept {
	a := Accept{WellFormed: true}
	for _, line := range lines {
		for _, el := range strings.Split(line, ",") {
			el = strings.Trim(el, " \t")
			if el == "" {
				if strings.TrimSpace(line) != "" {
					a.EmptyElems = true
				}
				continue // empty list elements are allowed
			}
			parts := strings.Split(el, ";")
			mt := strings.Trim(parts[0], " \t")
			typ, sub, ok := strings.Cut(mt, "/")
			if !ok || !isToken(typ) || !isToken(sub) || (typ == "*" && sub != "*") {
				a.WellFormed = false
				continue
			}
			r := MediaRange{Type: strings.ToLower(typ), Sub: strings.ToLower(sub), Q: 1}
			if r.Type != typ || r.Sub != sub {
				a.MixedCase = true
			}
			seenQ := false
			for _, p := range parts[1:] {
				p = strings.Trim(p, " \t")
				k, v, ok := strings.Cut(p, "=")
				if !ok || !isToken(k) {
					a.WellFormed = false
					continue
				}
				if !seenQ && (k == "q" || k == "Q") {
					q, ok := parseQ(v)
					if !ok {
						a.WellFormed = false
						continue
					}
					if k == "Q" {
						a.MixedCase = true
					}
					r.Q = q
					seenQ = true
					continue
				}
				if !isToken(v) && !(len(v) >= 2 && v[0] == '"' && v[len(v)-1] == '"') {
					a.WellFormed = false
				}
				if !seenQ {
					r.HasParams = true
				} else {
					a.HasExt = true
				}
			}
			a.Ranges = append(a.Ranges, r)
		}
	}
	return a
}

// Admits returns the offers matched by some range with q > 0 (the permissive
// reading of "the Accept header admits the type").
func (a Accept) Admits(offers []string) []string {
	var out []string
	for _, o := range offers {
		ot, os, _ := strings.Cut(o, "/")
		for _, r := range a.Ranges {
			if r.Q <= 0 || r.HasParams {
				continue
			}
			if (r.Type == "*" && r.Sub == "*") || (r.Type == ot && (r.Sub == "*" || r.Sub == os)) {
				out = append(out, o)
				break
			}
		}
	}
	return out
}
