// Package ref holds reference models written from the documented grammars
// and specifications, independently of larking's code.
package ref

import (
	"fmt"
	"strings"
	"unicode"
)

// SegKind is the kind of a template segment.
type SegKind int

const (
	Lit SegKind = iota
	Star
	StarStar
	Var
)

// Seg is one segment of a template.
type Seg struct {
	Kind  SegKind
	Lit   string   // Lit
	Field []string // Var: field path
	Pat   []Seg    // Var: sub-pattern (defaults to a single Star)
}

// Template is a parsed google.api.http path template.
//
//	Template = "/" Segments [ Verb ] ;
//	Segments = Segment { "/" Segment } ;
//	Segment  = "*" | "**" | LITERAL | Variable ;
//	Variable = "{" FieldPath [ "=" Segments ] "}" ;
//	FieldPath = IDENT { "." IDENT } ;
//	Verb     = ":" LITERAL ;
type Template struct {
	Segs []Seg
	Verb string
	// Contested marks shapes on which the EBNF and google's prose disagree
	// (nested variables, "**" not in last position).
	NestedVar       bool
	StarStarNotLast bool
}

func isIdentRune(r rune) bool {
	return unicode.IsLetter(r) || unicode.IsDigit(r) || r == '_' || r == '-'
}
func isLitRune(r rune) bool { return isIdentRune(r) || r == '.' }

type tparser struct {
	s   []rune
	pos int
	t   *Template
}

func (p *tparser) peek() rune {
	if p.pos >= len(p.s) {
		return -1
	}
	return p.s[p.pos]
}

func (p *tparser) run(ok func(rune) bool) string {
	st := p.pos
	for p.pos < len(p.s) && ok(p.s[p.pos]) {
		p.pos++
	}
	return string(p.s[st:p.pos])
}

func (p *tparser) segments(inVar bool) ([]Seg, error) {
	var out []Seg
	for {
		sg, err := p.segment(inVar)
		if err != nil {
			return nil, err
		}
		out = append(out, sg)
		if p.peek() != '/' {
			return out, nil
		}
		p.pos++
	}
}

func (p *tparser) segment(inVar bool) (Seg, error) {
	switch r := p.peek(); {
	case r == '*':
		p.pos++
		if p.peek() == '*' {
			p.pos++
			return Seg{Kind: StarStar}, nil
		}
		return Seg{Kind: Star}, nil
	case r == '{':
		if inVar {
			p.t.NestedVar = true
		}
		p.pos++
		var fp []string
		for {
			id := p.run(isIdentRune)
			if id == "" {
				return Seg{}, fmt.Errorf("pos %d: expected IDENT", p.pos)
			}
			fp = append(fp, id)
			if p.peek() != '.' {
				break
			}
			p.pos++
		}
		sg := Seg{Kind: Var, Field: fp, Pat: []Seg{{Kind: Star}}}
		if p.peek() == '=' {
			p.pos++
			pat, err := p.segments(true)
			if err != nil {
				return Seg{}, err
			}
			sg.Pat = pat
		}
		if p.peek() != '}' {
			return Seg{}, fmt.Errorf("pos %d: expected '}'", p.pos)
		}
		p.pos++
		return sg, nil
	case r != -1 && isLitRune(r):
		return Seg{Kind: Lit, Lit: p.run(isLitRune)}, nil
	default:
		return Seg{}, fmt.Errorf("pos %d: unexpected %q", p.pos, r)
	}
}

// ParseTemplate parses s per the EBNF above.
func ParseTemplate(s string) (*Template, error) {
	p := &tparser{s: []rune(s), t: &Template{}}
	if p.peek() != '/' {
		return nil, fmt.Errorf("template must start with '/'")
	}
	p.pos++
	segs, err := p.segments(false)
	if err != nil {
		return nil, err
	}
	p.t.Segs = segs
	if p.peek() == ':' {
		p.pos++
		v := p.run(isLitRune)
		if v == "" {
			return nil, fmt.Errorf("pos %d: empty verb", p.pos)
		}
		p.t.Verb = v
	}
	if p.pos != len(p.s) {
		return nil, fmt.Errorf("pos %d: trailing %q", p.pos, string(p.s[p.pos:]))
	}
	// "**" anywhere but last?
	flat := p.t.Atoms()
	for i, a := range flat {
		if a.Kind == StarStar && i != len(flat)-1 {
			p.t.StarStarNotLast = true
		}
	}
	return p.t, nil
}

// Atom is a flattened (non-variable) segment with the variable it belongs to.
type Atom struct {
	Kind SegKind
	Lit  string
	Var  int // index into Vars(), -1 if none
}

// Atoms flattens the template; nested variables are flattened into their
// outermost variable for capture purposes.
func (t *Template) Atoms() []Atom {
	var out []Atom
	vi := -1
	var walk func(segs []Seg, cur int)
	walk = func(segs []Seg, cur int) {
		for _, s := range segs {
			switch s.Kind {
			case Var:
				if cur == -1 {
					vi++
					walk(s.Pat, vi)
				} else {
					walk(s.Pat, cur)
				}
			default:
				out = append(out, Atom{Kind: s.Kind, Lit: s.Lit, Var: cur})
			}
		}
	}
	walk(t.Segs, -1)
	return out
}

// Vars returns the field paths of top-level variables in order.
func (t *Template) Vars() [][]string {
	var out [][]string
	for _, s := range t.Segs {
		if s.Kind == Var {
			out = append(out, s.Field)
		}
	}
	return out
}

func segString(segs []Seg) string {
	var parts []string
	for _, s := range segs {
		switch s.Kind {
		case Lit:
			parts = append(parts, s.Lit)
		case Star:
			parts = append(parts, "*")
		case StarStar:
			parts = append(parts, "**")
		case Var:
			v := "{" + strings.Join(s.Field, ".")
			if !(len(s.Pat) == 1 && s.Pat[0].Kind == Star) {
				v += "=" + segString(s.Pat)
			}
			parts = append(parts, v+"}")
		}
	}
	return strings.Join(parts, "/")
}

// String renders the template.
func (t *Template) String() string {
	s := "/" + segString(t.Segs)
	if t.Verb != "" {
		s += ":" + t.Verb
	}
	return s
}

// Shape is the token-kind sequence (L * ** {…}) used for distinctness.
func (t *Template) Shape() string {
	var sb strings.Builder
	var walk func(segs []Seg)
	walk = func(segs []Seg) {
		for i, s := range segs {
			if i > 0 {
				sb.WriteByte('/')
			}
			switch s.Kind {
			case Lit:
				sb.WriteByte('L')
			case Star:
				sb.WriteByte('*')
			case StarStar:
				sb.WriteString("**")
			case Var:
				sb.WriteString(fmt.Sprintf("{%d=", len(s.Field)))
				walk(s.Pat)
				sb.WriteByte('}')
			}
		}
	}
	walk(t.Segs)
	if t.Verb != "" {
		sb.WriteString(":V")
	}
	return sb.String()
}

// Binding is one way a template matches a path: the text covered by each
// top-level variable, in template order.
type Binding []string

// Match returns every way the template matches path. minSS is the minimum
// number of segments a "**" must cover (0 = google's reading, 1 = larking's).
// The path is taken literally (already percent-decoded, as net/http passes
// it). A ':' is only special as the final ":verb" suffix when the template
// declares a verb.
func (t *Template) Match(path string, minSS int) []Binding {
	if !strings.HasPrefix(path, "/") {
		return nil
	}
	rest := path[1:]
	if t.Verb != "" {
		suf := ":" + t.Verb
		if !strings.HasSuffix(rest, suf) {
			return nil
		}
		rest = rest[:len(rest)-len(suf)]
	}
	segs := strings.Split(rest, "/")
	atoms := t.Atoms()
	nvars := len(t.Vars())

	var out []Binding
	// spans[v] = [start,end) over segs
	type span struct{ s, e int }
	spans := make([]span, nvars)
	for i := range spans {
		spans[i] = span{-1, -1}
	}
	var rec func(ai, si int)
	rec = func(ai, si int) {
		if ai == len(atoms) {
			if si != len(segs) {
				return
			}
			b := make(Binding, nvars)
			for v, sp := range spans {
				if sp.s >= 0 {
					b[v] = strings.Join(segs[sp.s:sp.e], "/")
				}
			}
			out = append(out, b)
			return
		}
		a := atoms[ai]
		mark := func(from, to int, f func()) {
			if a.Var < 0 {
				f()
				return
			}
			old := spans[a.Var]
			if old.s < 0 {
				spans[a.Var] = span{from, to}
			} else {
				spans[a.Var] = span{old.s, to}
			}
			f()
			spans[a.Var] = old
		}
		switch a.Kind {
		case Lit:
			if si < len(segs) && segs[si] == a.Lit {
				mark(si, si+1, func() { rec(ai+1, si+1) })
			}
		case Star:
			if si < len(segs) && segs[si] != "" {
				mark(si, si+1, func() { rec(ai+1, si+1) })
			}
		case StarStar:
			for k := minSS; si+k <= len(segs); k++ {
				kk := k
				mark(si, si+kk, func() { rec(ai+1, si+kk) })
			}
		}
	}
	rec(0, 0)
	return out
}

// MatchStrict is the reading used for completeness: "**" covers at least one
// segment and a template without a verb does not match a path containing ':'
// (whether ':' may be segment text is unspecified, so it is never required).
// With "**" only in last position the result has at most one element.
func (t *Template) MatchStrict(path string) []Binding {
	if t.Verb == "" && strings.Contains(path, ":") {
		return nil
	}
	if t.Verb != "" && strings.Count(path, ":") != 1 {
		return nil
	}
	return t.Match(path, 1)
}

// Step is one trie step of a template: a literal segment or a variable /
// wildcard with its pattern text. N is the number of path segments the step
// covers in a given match (filled by Steps).
type Step struct {
	Lit  bool
	Text string
}

// Steps returns the template as trie steps (top-level "*" and "{f}" are the
// same step "*").
func (t *Template) Steps() []Step {
	var out []Step
	for _, s := range t.Segs {
		switch s.Kind {
		case Lit:
			out = append(out, Step{Lit: true, Text: s.Lit})
		case Star:
			out = append(out, Step{Text: "*"})
		case StarStar:
			out = append(out, Step{Text: "**"})
		case Var:
			out = append(out, Step{Text: segString(s.Pat)})
		}
	}
	if t.Verb != "" {
		out = append(out, Step{Lit: true, Text: ":" + t.Verb})
	}
	return out
}

// PositionKey identifies the trie node a template ends at.
func (t *Template) PositionKey() string {
	var parts []string
	for _, s := range t.Steps() {
		if s.Lit {
			parts = append(parts, "L:"+s.Text)
		} else {
			parts = append(parts, "V:"+s.Text)
		}
	}
	return strings.Join(parts, "|")
}
