module verif

go 1.23

toolchain go1.23.5

require (
	github.com/gobwas/ws v1.2.0
	golang.org/x/net v0.29.0
	google.golang.org/genproto v0.0.0-20230410155749-daa745c078e1
	google.golang.org/grpc v1.68.0
	google.golang.org/protobuf v1.34.2
	larking.io v0.0.0
	pgregory.net/rapid v1.3.0
)

require (
	github.com/gobwas/httphead v0.1.0 // indirect
	github.com/gobwas/pool v0.2.1 // indirect
	golang.org/x/sys v0.25.0 // indirect
	golang.org/x/text v0.18.0 // indirect
)

replace larking.io => /repo
