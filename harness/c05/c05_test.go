// C05 — status and error fidelity on every protocol.
package c05

import (
	"bytes"
	"context"
	"encoding/base64"
	"encoding/json"
	"errors"
	"fmt"
	gzipenc "google.golang.org/grpc/encoding/gzip"
	"io"
	"net/http"
	"net/url"
	"os"
	"strconv"
	"strings"
	"sync"
	"testing"
	"time"
	"unicode/utf8"

	"github.com/gobwas/ws"
	"github.com/gobwas/ws/wsutil"
	"google.golang.org/genproto/googleapis/api/annotations"
	"google.golang.org/genproto/googleapis/rpc/errdetails"
	spb "google.golang.org/genproto/googleapis/rpc/status"
	"google.golang.org/grpc"
	"google.golang.org/grpc/codes"
	"google.golang.org/grpc/metadata"
	"google.golang.org/grpc/status"
	"google.golang.org/protobuf/encoding/protojson"
	"google.golang.org/protobuf/proto"
	"google.golang.org/protobuf/reflect/protoreflect"
	"google.golang.org/protobuf/types/dynamicpb"
	"google.golang.org/protobuf/types/known/anypb"
	"google.golang.org/protobuf/types/known/wrapperspb"
	"larking.io/larking"
	"pgregory.net/rapid"

	"verif/drive"
	"verif/dyn"
	"verif/evid"
	"verif/uni"
)

const prop = "C05"

func TestMain(m *testing.M) {
	code := m.Run()
	evid.Flush()
	os.Exit(code)
}

type Detail struct {
	Kind  string `json:"kind"` // errorinfo | retry | string | bytes
	Value string `json:"value"`
}

type Case struct {
	Transport string   `json:"transport"` // httpjson | httpproto | twirp | grpc | grpcweb | grpcwebtext | ws
	Code      uint32   `json:"code"`
	Msg       string   `json:"msg"`
	Details   []Detail `json:"details"`
	After     int      `json:"after"`      // replies sent before the error (server streaming); -1 = unary method
	ReqType   string   `json:"req_type"`   // httpjson, unary: the request is a raw upload with this (unregistered) Content-Type
	Accept    string   `json:"accept"`     // ... and this Accept header ("" = none)
	HeaderOp  string   `json:"header_op"`  // what the handler does before failing: "" nothing | "set" grpc.SetHeader | "send" grpc.SendHeader
	JSONSub   bool     `json:"json_sub"`   // gRPC-web: the message sub-codec is +json instead of +proto (status details stay a binary google.rpc.Status)
	Gzip      bool     `json:"gzip"`       // gRPC family: the call negotiates per-message gzip (request and replies compressed)
	SendLimit int      `json:"send_limit"` // > 0: the mux limits the size of reply MESSAGES (MaxSendMessageSizeOption); a status is not a message and is delivered whatever its size (as in grpc-go)
	PlainErr  string   `json:"plain_err"`  // the handler returns a Go error that is not a status: "eof" (the bare io.EOF sentinel) or "plain" (errors.New(Msg)); by gRPC convention that is Unknown with the error's text (Code and Details are then ignored)
	Spoof     bool     `json:"spoof"`      // the handler also sets trailer metadata under the protocol's own names (grpc-status: 0, grpc-message: all good); such metadata is never transmitted (grpc-go drops it too), the returned status stands
}

var (
	worldOnce sync.Once
	world     *dyn.World
)

func theWorld() *dyn.World {
	worldOnce.Do(func() {
		post := func(p string) *annotations.HttpRule {
			return &annotations.HttpRule{Pattern: &annotations.HttpRule_Post{Post: p}, Body: "*"}
		}
		fs := post("/c5/failstream")
		fs.AdditionalBindings = []*annotations.HttpRule{{Pattern: &annotations.HttpRule_Custom{Custom: &annotations.CustomHttpPattern{Kind: "websocket", Path: "/c5/ws"}}, Body: "*"}}
		world = uni.WorldWith(dyn.Svc("C5",
			dyn.MethodSpec{Name: "Fail", In: ".un.All", Out: ".un.All", Rule: post("/c5/fail")},
			dyn.MethodSpec{Name: "FailUp", In: ".un.UploadReq", Out: ".un.All", Rule: &annotations.HttpRule{Pattern: &annotations.HttpRule_Post{Post: "/c5/up/{name}"}, Body: "file"}},
			dyn.MethodSpec{Name: "FailStream", In: ".un.All", Out: ".un.All", ServerStream: true, Rule: fs},
		))
	})
	return world
}

// handlerErr is what the handler returns.
func (c Case) handlerErr() error {
	switch c.PlainErr {
	case "eof":
		return io.EOF
	case "plain":
		return errors.New(c.Msg)
	}
	return c.status().Err()
}

func (c Case) status() *status.Status {
	switch c.PlainErr {
	case "eof":
		return status.New(codes.Unknown, io.EOF.Error())
	case "plain":
		return status.New(codes.Unknown, c.Msg)
	}
	p := &spb.Status{Code: int32(c.Code), Message: c.Msg}
	for _, d := range c.Details {
		var m proto.Message
		switch d.Kind {
		case "errorinfo":
			m = &errdetails.ErrorInfo{Reason: d.Value, Domain: "verif.test", Metadata: map[string]string{"k": d.Value}}
		case "retry":
			m = &errdetails.BadRequest{FieldViolations: []*errdetails.BadRequest_FieldViolation{{Field: d.Value, Description: "bad"}}}
		case "bytes":
			m = wrapperspb.Bytes([]byte(d.Value))
		default:
			m = wrapperspb.String(d.Value)
		}
		a, err := anypb.New(m)
		if err != nil {
			panic(err)
		}
		p.Details = append(p.Details, a)
	}
	return status.FromProto(p)
}

func newMux(c Case) *larking.Mux {
	w := theWorld()
	mopts := []larking.MuxOption{larking.FilesOption(w.Files)}
	if c.SendLimit > 0 {
		mopts = append(mopts, larking.MaxSendMessageSizeOption(c.SendLimit))
	}
	mux, err := larking.NewMux(mopts...)
	if err != nil {
		panic(err)
	}
	_ = c.status()
	reply := func(md protoreflect.MessageDescriptor, i int) proto.Message {
		m := dynamicpb.NewMessage(md)
		m.Set(md.Fields().ByName("f_int32"), protoreflect.ValueOfInt32(int32(i+1)))
		return m
	}
	unary := func(ctx context.Context, fm string, req *dynamicpb.Message) (proto.Message, error) {
		switch c.HeaderOp {
		case "set":
			grpc.SetHeader(ctx, metadata.Pairs("x-c5", "1"))
		case "send":
			grpc.SendHeader(ctx, metadata.Pairs("x-c5", "1"))
		}
		if c.Spoof {
			grpc.SetTrailer(ctx, metadata.Pairs("grpc-status", "0", "grpc-message", "all good"))
		}
		if c.Code == 0 {
			return dynamicpb.NewMessage(req.Descriptor()), nil // OK: a reply is required
		}
		return nil, c.handlerErr()
	}
	stream := func(full string, in, out protoreflect.MessageDescriptor, ss grpc.ServerStream) error {
		m := dynamicpb.NewMessage(in)
		if err := ss.RecvMsg(m); err != nil {
			return err
		}
		switch c.HeaderOp {
		case "set":
			ss.SetHeader(metadata.Pairs("x-c5", "1"))
		case "send":
			ss.SendHeader(metadata.Pairs("x-c5", "1"))
		}
		if c.Spoof {
			ss.SetTrailer(metadata.Pairs("grpc-status", "0", "grpc-message", "all good"))
		}
		for i := 0; i < c.After; i++ {
			if err := ss.SendMsg(reply(out, i)); err != nil {
				return err
			}
		}
		return c.handlerErr()
	}
	if err := mux.VerifRegisterService(w.ServiceDesc("un.C5", unary, stream), nil); err != nil {
		panic(err)
	}
	return mux
}

var httpMap = map[uint32][]int{0: {200}, 1: {499, 408}, 2: {500}, 3: {400}, 4: {504}, 5: {404}, 6: {409}, 7: {403}, 8: {429}, 9: {400}, 10: {409}, 11: {400}, 12: {501}, 13: {500}, 14: {503}, 15: {500}, 16: {401}}
var twirpNames = map[uint32]string{1: "canceled", 2: "unknown", 3: "invalid_argument", 4: "deadline_exceeded", 5: "not_found", 6: "already_exists", 7: "permission_denied", 8: "resource_exhausted",
	9: "failed_precondition", 10: "aborted", 11: "out_of_range", 12: "unimplemented", 13: "internal", 14: "unavailable", 15: "dataloss", 16: "unauthenticated"}

func sameStatus(got *spb.Status, c Case) string {
	want := c.status().Proto()
	if got.GetCode() != want.GetCode() {
		return fmt.Sprintf("code %d want %d", got.GetCode(), want.GetCode())
	}
	if got.GetMessage() != want.GetMessage() {
		return fmt.Sprintf("message %q want %q", got.GetMessage(), want.GetMessage())
	}
	if len(got.GetDetails()) != len(want.GetDetails()) {
		return fmt.Sprintf("%d details want %d", len(got.GetDetails()), len(want.GetDetails()))
	}
	for i := range want.Details {
		if !proto.Equal(got.Details[i], want.Details[i]) {
			return fmt.Sprintf("detail %d differs", i)
		}
	}
	return ""
}

// pctDecode is the harness's own grpc-message decoder.
func pctDecode(s string) (string, error) {
	var out []byte
	for i := 0; i < len(s); i++ {
		if s[i] == '%' {
			if i+3 > len(s) {
				return "", fmt.Errorf("short escape at %d", i)
			}
			b, err := strconv.ParseUint(s[i+1:i+3], 16, 8)
			if err != nil {
				return "", err
			}
			out = append(out, byte(b))
			i += 2
			continue
		}
		out = append(out, s[i])
	}
	return string(out), nil
}

func body() []byte { return []byte(`{"fInt32":7}`) }

func grpcFrame() []byte {
	return drive.GRPCFrame([]byte{0x18, 0x07}, false)
}

// Check drives one case.
func Check(c Case) []evid.Violation {
	sig := c.Transport + ":"
	fail := func(clause, s, f string, a ...any) []evid.Violation {
		return []evid.Violation{evid.V(clause, sig+s, f, a...)}
	}
	mux := newMux(c)
	path, method := "/c5/fail", "/un.C5/Fail"
	if c.After >= 0 {
		path, method = "/c5/failstream", "/un.C5/FailStream"
	}
	inRange := c.Code <= 16
	switch c.Transport {
	case "httpjson", "httpproto":
		hdr := http.Header{}
		hdr.Set("Content-Type", "application/json")
		if c.Transport == "httpproto" {
			hdr.Set("Accept", "application/protobuf")
		}
		reqBody := body()
		if c.ReqType != "" && c.After < 0 {
			// a raw upload: the request's own content type names no codec the error could be written in
			path, reqBody = "/c5/up/f1", []byte("\xff\xd8raw bytes")
			hdr.Set("Content-Type", c.ReqType)
			hdr.Del("Accept")
			if c.Accept != "" {
				hdr.Set("Accept", c.Accept)
			}
		}
		res := drive.Serve(mux, drive.Request("POST", path, "", hdr, bytes.NewReader(reqBody), int64(len(reqBody))))
		if res.Panic != nil {
			return fail("no-response", res.PanicSig(), "panic: %v", res.Panic)
		}
		if c.After > 0 {
			// status line already sent: replies intact is all that can be asked
			if res.Rec.Code != 200 {
				return fail("after-replies", "status-after-replies", "status %d after %d replies", res.Rec.Code, c.After)
			}
			return nil
		}
		if c.Code == 0 {
			return nil // OK "error": nothing to assert on HTTP
		}
		ok := false
		if inRange {
			for _, s := range httpMap[c.Code] {
				ok = ok || s == res.Rec.Code
			}
		} else {
			ok = res.Rec.Code == 500
		}
		if !ok {
			return fail("http-status", "http-status", "code %d -> HTTP %d, want %v", c.Code, res.Rec.Code, httpMap[c.Code])
		}
		var got spb.Status
		ct := res.Hdr.Get("Content-Type")
		var err error
		switch ct {
		case "application/json":
			err = protojson.Unmarshal(res.Rec.Body.Bytes(), &got)
		case "application/protobuf":
			err = proto.Unmarshal(res.Rec.Body.Bytes(), &got)
		default:
			err = fmt.Errorf("unexpected Content-Type %q", ct)
		}
		if err != nil {
			return fail("http-body", "http-body-undecodable", "error body does not decode as google.rpc.Status (%s): %v; body %q", ct, err, res.Rec.Body.String())
		}
		if d := sameStatus(&got, c); d != "" {
			return fail("http-body", "http-body-differs", "google.rpc.Status body: %s", d)
		}
	case "twirp":
		hdr := http.Header{}
		hdr.Set("Content-Type", "application/json")
		hdr.Set("Twirp-Version", "v7.1.0")
		res := drive.Serve(mux, drive.Request("POST", method, "", hdr, bytes.NewReader(body()), int64(len(body()))))
		if res.Panic != nil {
			return fail("no-response", res.PanicSig(), "panic: %v", res.Panic)
		}
		if c.After > 0 || c.Code == 0 {
			return nil
		}
		var te struct {
			Code string `json:"code"`
			Msg  string `json:"msg"`
		}
		if err := json.Unmarshal(res.Rec.Body.Bytes(), &te); err != nil {
			return fail("twirp-body", "twirp-undecodable", "twirp error is not JSON: %v (%q)", err, res.Rec.Body.String())
		}
		if inRange && te.Code != twirpNames[c.Code] {
			return fail("twirp-code", "twirp-code-name", "code %d -> twirp %q, want %q", c.Code, te.Code, twirpNames[c.Code])
		}
		// the Twirp protocol fixes the set of error codes: whatever the status was, the client must get one of them
		valid := false
		for _, n := range twirpNames {
			valid = valid || n == te.Code
		}
		if !valid {
			return fail("twirp-code", "twirp-code-not-a-twirp-name", "code %d -> twirp code %q, which is not one of the error codes of the Twirp specification", c.Code, te.Code)
		}
		if te.Msg != c.Msg {
			return fail("twirp-msg", "twirp-msg", "twirp msg %q want %q", te.Msg, c.Msg)
		}
	case "grpc":
		real := drive.Real()
		real.Use(mux)
		ctx, cancel := context.WithTimeout(context.Background(), 10*time.Second)
		defer cancel()
		w := theWorld()
		req := dynamicpb.NewMessage(w.MsgDesc("un.All"))
		var err error
		nreplies := 0
		var copts []grpc.CallOption
		if c.Gzip {
			copts = append(copts, grpc.UseCompressor(gzipenc.Name))
		}
		if c.After < 0 {
			err = real.CC.Invoke(ctx, method, req, dynamicpb.NewMessage(w.MsgDesc("un.All")), copts...)
		} else {
			var cs grpc.ClientStream
			cs, err = real.CC.NewStream(ctx, &grpc.StreamDesc{ServerStreams: true}, method, copts...)
			if err == nil {
				if err = cs.SendMsg(req); err == nil {
					err = cs.CloseSend()
				}
				for err == nil {
					m := dynamicpb.NewMessage(w.MsgDesc("un.All"))
					if err = cs.RecvMsg(m); err == nil {
						nreplies++
					}
				}
				if err == io.EOF {
					err = nil
				}
			}
		}
		if c.After >= 0 && nreplies != c.After && ctx.Err() == nil {
			return fail("grpc-replies", "grpc-reply-count", "client saw %d replies before the status, handler sent %d", nreplies, c.After)
		}
		st, _ := status.FromError(err)
		if ctx.Err() != nil {
			return fail("no-response", "grpc-timeout", "grpc call did not finish within 10s: %v", err)
		}
		if d := sameStatus(st.Proto(), c); d != "" && !(c.Code == 0 && st.Code() == codes.OK) {
			return fail("grpc-status", "grpc-status-differs", "grpc-go client status: %s (err %v)", d, err)
		}
	case "grpcweb", "grpcwebtext":
		hdr := http.Header{}
		reqBody := grpcFrame()
		payload, sub := []byte{0x18, 0x07}, "+proto"
		if c.JSONSub {
			payload, sub = body(), "+json"
		}
		reqBody = drive.GRPCFrame(payload, c.Gzip)
		if c.Gzip {
			hdr.Set("Grpc-Encoding", "gzip")
		}
		if c.Transport == "grpcwebtext" {
			hdr.Set("Content-Type", "application/grpc-web-text"+sub)
			reqBody = []byte(base64.StdEncoding.EncodeToString(reqBody))
		} else {
			hdr.Set("Content-Type", "application/grpc-web"+sub)
		}
		res := drive.Serve(mux, drive.Request("POST", method, "", hdr, bytes.NewReader(reqBody), -1))
		if res.Panic != nil {
			return fail("no-response", res.PanicSig(), "panic: %v", res.Panic)
		}
		b := res.Rec.Body.Bytes()
		if c.Transport == "grpcwebtext" {
			d, err := drive.DecodeWebText(b)
			if err != nil {
				return fail("web-body", "web-text-invalid-base64", "grpc-web-text body is not valid base64: %v", err)
			}
			b = d
		}
		frames, err := drive.ParseFrames(b)
		if err != nil {
			return fail("web-body", "web-frames", "response frames: %v", err)
		}
		var tr drive.WebTrailer
		ndata := 0
		for _, f := range frames {
			if f.Flag&0x80 != 0 {
				tr, err = drive.ParseWebTrailer(f.Payload)
				if err != nil {
					return fail("web-body", "web-trailer-unparsable", "trailer frame: %v (%q)", err, f.Payload)
				}
			} else {
				ndata++
			}
		}
		if tr == nil {
			// trailers-only
			tr = drive.WebTrailer{}
			for k, v := range res.Hdr {
				tr[strings.ToLower(k)] = v
			}
		}
		if c.After >= 0 && ndata != c.After {
			return fail("web-replies", "web-reply-count", "%d data frames, handler sent %d", ndata, c.After)
		}
		if tr.Get("grpc-status") != strconv.Itoa(int(c.Code)) {
			return fail("web-status", "web-grpc-status", "grpc-status %q want %d", tr.Get("grpc-status"), c.Code)
		}
		gm, err := pctDecode(tr.Get("grpc-message"))
		if err != nil || gm != c.Msg {
			return fail("web-message", "grpc-message", "grpc-message %q decodes to %q (%v), want %q", tr.Get("grpc-message"), gm, err, c.Msg)
		}
		if len(c.Details) > 0 {
			raw := tr.Get("grpc-status-details-bin")
			db, err := base64.RawStdEncoding.DecodeString(strings.TrimRight(raw, "="))
			var got spb.Status
			if err != nil || proto.Unmarshal(db, &got) != nil {
				return fail("web-details", "details-bin", "grpc-status-details-bin %q does not decode: %v", raw, err)
			}
			if d := sameStatus(&got, c); d != "" {
				return fail("web-details", "details-bin-differs", "details-bin status: %s", d)
			}
		}
	case "ws":
		return checkWS(c, mux, fail)
	}
	return nil
}

func checkWS(c Case, mux http.Handler, fail func(clause, s, f string, a ...any) []evid.Violation) []evid.Violation {
	real := drive.Real()
	real.Use(mux)
	ctx, cancel := context.WithTimeout(context.Background(), 10*time.Second)
	defer cancel()
	conn, br, _, err := ws.Dial(ctx, "ws://"+real.Addr+"/c5/ws")
	if err != nil {
		return fail("no-response", "ws-dial", "dial: %v", err)
	}
	defer conn.Close()
	conn.SetDeadline(time.Now().Add(10 * time.Second))
	var rd io.Reader = conn
	if br != nil {
		rd = br
	}
	if err := wsutil.WriteClientMessage(conn, ws.OpText, body()); err != nil {
		return fail("no-response", "ws-write", "write: %v", err)
	}
	ndata := 0
	for {
		hdr, err := ws.ReadHeader(rd)
		if err != nil {
			return fail("no-response", "ws-no-close-frame", "connection ended without a close frame after %d replies: %v", ndata, err)
		}
		payload := make([]byte, hdr.Length)
		if _, err := io.ReadFull(rd, payload); err != nil {
			return fail("ws-frame", "ws-short-frame", "frame payload: %v", err)
		}
		if hdr.OpCode.IsControl() && hdr.Length > 125 {
			return fail("ws-frame", "ws-oversized-control-frame", "control frame with %d-byte payload (max 125) for a %d-byte message", hdr.Length, len(c.Msg))
		}
		if hdr.OpCode == ws.OpText {
			ndata++
			continue
		}
		if hdr.OpCode != ws.OpClose {
			continue
		}
		if c.After >= 0 && ndata != c.After {
			return fail("ws-replies", "ws-reply-count", "%d replies before close, handler sent %d", ndata, c.After)
		}
		code, reason := ws.ParseCloseFrameData(payload)
		if c.Code == 0 {
			if len(payload) != 0 && code != 1000 {
				return fail("ws-close", "ws-close-code", "OK but close code %d", code)
			}
			return nil
		}
		if len(payload) < 2 || code == 1000 || code < 1000 || code > 4999 || code == 1005 || code == 1006 {
			return fail("ws-close", "ws-close-code", "status %d -> close code %d (payload %d bytes)", c.Code, code, len(payload))
		}
		if !utf8.ValidString(reason) {
			return fail("ws-close", "ws-close-reason-utf8", "close reason is not valid UTF-8: %q", reason)
		}
		if len(c.Msg) <= 123 {
			if reason != c.Msg {
				return fail("ws-close", "ws-close-reason", "close reason %q want %q", reason, c.Msg)
			}
		} else if !strings.HasPrefix(c.Msg, reason) || len(reason) < 100 {
			return fail("ws-close", "ws-close-reason", "close reason %q is not a (long) prefix of the %d-byte message", reason, len(c.Msg))
		}
		return nil
	}
}

// ---------------------------------------------------------------------------

var msgPool = []string{"", "not found", "100%", "%", "%41", "a%", "%zz", "50% off, 20% more", "tab\there", "line\nbreak", "nul\x00byte", "del\x7f", "bell\a",
	"héllo wörld", "日本語のメッセージ", "😀 emoji", "trailing space ", " leading", "a=b&c=d", "\"quoted\"", "back\\slash", "~tilde~", "%e2%82%ac"}

func genCase(t *rapid.T, transports []string) Case {
	c := Case{Transport: rapid.SampledFrom(transports).Draw(t, "transport")}
	c.Code = rapid.OneOf(rapid.Uint32Range(0, 16), rapid.Uint32Range(1, 16), rapid.SampledFrom([]uint32{17, 18, 99, 1<<31 - 1, 16, 1, 15})).Draw(t, "code")
	switch rapid.IntRange(0, 4).Draw(t, "msgKind") {
	case 0, 1:
		c.Msg = rapid.SampledFrom(msgPool).Draw(t, "msg")
	case 2:
		c.Msg = strings.ToValidUTF8(rapid.StringN(0, 40, 160).Draw(t, "msgR"), "?")
	case 3:
		n := rapid.SampledFrom([]int{100, 122, 123, 124, 125, 126, 200, 1024, 2048}).Draw(t, "long")
		unit := rapid.SampledFrom([]string{"x", "é", "%", "日"}).Draw(t, "unit")
		c.Msg = strings.Repeat(unit, n/len(unit)+1)[:n/len(unit)*len(unit)]
	default:
		c.Msg = rapid.SampledFrom(msgPool).Draw(t, "m1") + rapid.SampledFrom(msgPool).Draw(t, "m2")
	}
	nd := rapid.SampledFrom([]int{0, 0, 0, 1, 2}).Draw(t, "ndetails")
	for i := 0; i < nd; i++ {
		c.Details = append(c.Details, Detail{
			Kind:  rapid.SampledFrom([]string{"errorinfo", "retry", "string", "bytes"}).Draw(t, "dk"),
			Value: rapid.SampledFrom([]string{"", "v", "wert ü", "\x00\x01\xff"}).Draw(t, "dv"),
		})
		if c.Details[i].Kind != "bytes" {
			c.Details[i].Value = strings.ToValidUTF8(c.Details[i].Value, "?")
		}
	}
	// header-carried messages cannot keep leading/trailing whitespace (HTTP
	// field-value syntax; grpc-go has the same limit)
	c.Msg = strings.Trim(c.Msg, " \t")
	switch rapid.IntRange(0, 11).Draw(t, "plainErr") {
	case 0:
		c.PlainErr, c.Code, c.Msg, c.Details = "eof", uint32(codes.Unknown), io.EOF.Error(), nil
	case 1:
		c.PlainErr, c.Code, c.Details = "plain", uint32(codes.Unknown), nil
		if c.Msg == "" {
			c.Msg = "boom"
		}
	}
	if c.Code == 0 {
		c.Msg, c.Details = "", nil // OK carries neither message nor details
	}
	c.After = rapid.SampledFrom([]int{-1, -1, 0, 0, 1, 3}).Draw(t, "after")
	if strings.HasPrefix(c.Transport, "grpc") {
		c.Gzip = rapid.IntRange(0, 2).Draw(t, "gzip") == 0
	}
	c.HeaderOp = rapid.SampledFrom([]string{"", "", "set", "send"}).Draw(t, "headerOp")
	c.Spoof = rapid.IntRange(0, 5).Draw(t, "spoof") == 0
	if rapid.IntRange(0, 5).Draw(t, "sendLimit") == 0 {
		c.SendLimit = rapid.SampledFrom([]int{16, 64, 256}).Draw(t, "sendLimitV") // the replies of this check are a few bytes long
	}
	if c.Transport == "httpjson" && c.After < 0 && rapid.IntRange(0, 3).Draw(t, "rawUpload") == 0 {
		c.ReqType = rapid.SampledFrom([]string{"image/jpeg", "application/json; charset=utf-8", "text/plain", "application/x-unknown"}).Draw(t, "reqType")
		c.Accept = rapid.SampledFrom([]string{"", "", "image/*", "application/json", "*/*", "application/protobuf"}).Draw(t, "acceptErr")
	}
	if strings.HasPrefix(c.Transport, "grpcweb") {
		c.JSONSub = rapid.IntRange(0, 2).Draw(t, "jsonSub") == 0
	}
	if c.Transport == "ws" && c.After < 0 {
		c.After = 0
	}
	if c.Transport == "twirp" && c.After > 0 {
		c.After = 0
	}
	return c
}

func record(c Case) {
	needsEsc := false
	for i := 0; i < len(c.Msg); i++ {
		if b := c.Msg[i]; b < ' ' || b > '~' || b == '%' {
			needsEsc = true
		}
	}
	cl := []string{"transport=" + c.Transport}
	key := ""
	if needsEsc {
		cl = append(cl, "msg-needs-escaping")
	}
	if len(c.Details) > 0 {
		cl = append(cl, "details")
	}
	if c.Code > 16 {
		cl = append(cl, "code-out-of-range")
	}
	if c.After > 0 {
		cl = append(cl, "error-after-replies")
	}
	if len(c.Msg) > 123 {
		cl = append(cl, "long-message")
	}
	if c.Gzip {
		cl = append(cl, "gzip-negotiated")
	}
	if c.JSONSub {
		cl = append(cl, "json-sub-codec")
	}
	if c.PlainErr != "" {
		cl = append(cl, "handler-returns-non-status-error="+c.PlainErr)
	}
	if c.Spoof {
		cl = append(cl, "handler-sets-reserved-trailer-names")
	}
	if c.SendLimit > 0 {
		cl = append(cl, "mux-with-send-limit")
	}
	if c.HeaderOp != "" {
		cl = append(cl, "handler-header-op="+c.HeaderOp)
	}
	if c.ReqType != "" {
		cl = append(cl, "raw-upload-request")
	}
	if needsEsc || len(c.Details) > 0 || c.Code > 16 || c.After > 0 {
		key = fmt.Sprintf("%s|%d|%q|%v|%d|%v|%v|%s|%s|%s", c.Transport, c.Code, c.Msg, c.Details, c.After, c.Gzip, c.JSONSub, c.HeaderOp+fmt.Sprint(c.Spoof, c.SendLimit, c.PlainErr), c.ReqType, c.Accept)
	}
	evid.Eval(key, cl...)
}

var inproc = []string{"httpjson", "httpproto", "twirp", "grpcweb", "grpcwebtext"}

func TestProp(t *testing.T) {
	rapid.Check(t, func(t *rapid.T) {
		c := genCase(t, inproc)
		vs := Check(c)
		record(c)
		evid.Sample(c.Transport, c)
		evid.Report(t, prop, c, vs)
	})
}

func TestPropReal(t *testing.T) {
	rapid.Check(t, func(t *rapid.T) {
		c := genCase(t, []string{"grpc", "grpc", "grpc", "ws"})
		vs := Check(c)
		record(c)
		evid.Sample(c.Transport, c)
		evid.Report(t, prop, c, vs)
	})
}

func TestReplay(t *testing.T) {
	path := os.Getenv("VERIF_REPLAY")
	if path == "" {
		t.Skip("VERIF_REPLAY not set")
	}
	var c Case
	if err := evid.LoadReplay(path, &c); err != nil {
		t.Fatal(err)
	}
	evid.Report(t, prop, c, Check(c))
}

var _ = url.QueryEscape
