package c07

// HttpBody uploads: a path variable may be bound INSIDE the body field
// (file.content_type), where the request's own Content-Type header is the
// competing "body" value. Unary and client-streaming methods; the streaming
// handler reads the first message either with RecvMsg or with the public
// larking.AsHTTPBodyReader helper.

import (
	"bytes"
	"context"
	"fmt"
	"io"
	"net/http"
	"net/url"
	"sync"
	"testing"

	"google.golang.org/genproto/googleapis/api/annotations"
	"google.golang.org/grpc"
	"google.golang.org/protobuf/proto"
	"google.golang.org/protobuf/reflect/protoreflect"
	"google.golang.org/protobuf/types/dynamicpb"
	"larking.io/larking"
	"pgregory.net/rapid"

	"verif/drive"
	"verif/dyn"
	"verif/evid"
	"verif/uni"
)

type HBCase struct {
	Stream      bool   `json:"stream"`      // client-streaming upload
	UseHelper   bool   `json:"use_helper"`  // streaming: handler calls larking.AsHTTPBodyReader instead of RecvMsg
	Type        string `json:"type"`        // captured by {file.content_type=*/*}, e.g. image/png
	Name        string `json:"name"`        // captured by {name}
	ReqType     string `json:"req_type"`    // the request's Content-Type header ("" = none)
	QueryType   string `json:"query_type"`  // ?file.content_type=... ("" = absent)
	QueryName   string `json:"query_name"`  // ?name=... ("" = absent)
	QueryFirst  bool   `json:"query_first"` // order of the two query keys
	Data        []byte `json:"data"`
	Bidi        bool   `json:"bidi"`         // (with Stream) the method also streams its reply, a google.api.HttpBody
	WriterFirst bool   `json:"writer_first"` // (with Bidi) the handler opens larking.AsHTTPBodyWriter before it receives its first message
}

var (
	hbOnce  sync.Once
	hbWorld *dyn.World
)

func hbTheWorld() *dyn.World {
	hbOnce.Do(func() {
		rule := func(p string) *annotations.HttpRule {
			return &annotations.HttpRule{Pattern: &annotations.HttpRule_Post{Post: p}, Body: "file"}
		}
		hbWorld = uni.WorldWith(dyn.Svc("C7HB",
			dyn.MethodSpec{Name: "Put", In: ".un.UploadReq", Out: ".un.UploadReq", Rule: rule("/hb/u/{file.content_type=*/*}/{name}")},
			dyn.MethodSpec{Name: "PutS", In: ".un.UploadReq", Out: ".un.UploadReq", ClientStream: true, Rule: rule("/hb/s/{file.content_type=*/*}/{name}")},
			dyn.MethodSpec{Name: "PutB", In: ".un.UploadReq", Out: ".google.api.HttpBody", ClientStream: true, ServerStream: true, Rule: rule("/hb/b/{file.content_type=*/*}/{name}")},
		))
	})
	return hbWorld
}

func CheckHB(c HBCase) ([]evid.Violation, bool) {
	w := hbTheWorld()
	md := w.MsgDesc("un.UploadReq")
	var mu sync.Mutex
	var got proto.Message
	var herr error
	record := func(m proto.Message) {
		mu.Lock()
		if got == nil {
			got = proto.Clone(m)
		}
		mu.Unlock()
	}
	sd := w.ServiceDesc("un.C7HB", func(ctx context.Context, fm string, req *dynamicpb.Message) (proto.Message, error) {
		record(req)
		return dynamicpb.NewMessage(md), nil
	}, func(full string, in, out protoreflect.MessageDescriptor, ss grpc.ServerStream) error {
		first := dynamicpb.NewMessage(in)
		var wr io.Writer
		if c.WriterFirst {
			// a legal order on a bidi stream: the reply is opened before the first request message is read
			head := dynamicpb.NewMessage(out)
			head.Set(out.Fields().ByName("content_type"), protoreflect.ValueOfString("text/x-c7"))
			var err error
			if wr, err = larking.AsHTTPBodyWriter(ss, head); err != nil {
				herr = err
				return err
			}
		}
		if c.UseHelper {
			rd, err := larking.AsHTTPBodyReader(ss, first)
			if err != nil {
				herr = err
				return err
			}
			record(first)
			io.Copy(io.Discard, rd)
		} else {
			if err := ss.RecvMsg(first); err != nil {
				herr = err
				return err
			}
			record(first)
			for {
				if err := ss.RecvMsg(dynamicpb.NewMessage(in)); err != nil {
					break
				}
			}
		}
		if wr != nil {
			_, err := wr.Write([]byte("done"))
			return err
		}
		return ss.SendMsg(dynamicpb.NewMessage(out))
	})
	mux, err := larking.NewMux(larking.FilesOption(w.Files))
	if err != nil {
		panic(err)
	}
	if err := mux.VerifRegisterService(sd, nil); err != nil {
		panic(err)
	}
	path := "/hb/u/"
	if c.Stream {
		path = "/hb/s/"
	}
	if c.Stream && c.Bidi {
		path = "/hb/b/"
	}
	path += c.Type + "/" + c.Name
	var q []string
	if c.QueryType != "" {
		q = append(q, "file.content_type="+url.QueryEscape(c.QueryType))
	}
	if c.QueryName != "" {
		q = append(q, "name="+url.QueryEscape(c.QueryName))
	}
	if !c.QueryFirst && len(q) == 2 {
		q[0], q[1] = q[1], q[0]
	}
	raw := ""
	for i, kv := range q {
		if i > 0 {
			raw += "&"
		}
		raw += kv
	}
	hdr := http.Header{}
	if c.ReqType != "" {
		hdr.Set("Content-Type", c.ReqType)
	}
	cl := int64(len(c.Data))
	if c.Stream {
		cl = -1
	}
	res := drive.Serve(mux, drive.Request("POST", path, raw, hdr, bytes.NewReader(c.Data), cl))
	if res.Panic != nil {
		return []evid.Violation{evid.V("panic", res.PanicSig(), "panic: %v", res.Panic)}, false
	}
	mu.Lock()
	defer mu.Unlock()
	if got == nil {
		evid.Class(fmt.Sprintf("hb-rejected-status=%d", res.Rec.Code))
		_ = herr
		return nil, false // rejecting is allowed; only delivery of a replaced value is not
	}
	g := got.ProtoReflect()
	file := g.Get(md.Fields().ByName("file")).Message()
	gotType := file.Get(file.Descriptor().Fields().ByName("content_type")).String()
	gotName := g.Get(md.Fields().ByName("name")).String()
	var vs []evid.Violation
	if gotType != c.Type {
		vs = append(vs, evid.V("path-value-replaced", "httpbody-content-type-replaced", "file.content_type: handler got %q, path captured %q (request Content-Type %q, query %q; stream=%v helper=%v)", gotType, c.Type, c.ReqType, c.QueryType, c.Stream, c.UseHelper))
	}
	if gotName != c.Name {
		vs = append(vs, evid.V("path-value-replaced", "httpbody-name-replaced", "name: handler got %q, path captured %q (query %q; stream=%v helper=%v)", gotName, c.Name, c.QueryName, c.Stream, c.UseHelper))
	}
	return vs, true
}

func TestPropHTTPBody(t *testing.T) {
	rapid.Check(t, func(t *rapid.T) {
		c := HBCase{
			Stream:     rapid.Bool().Draw(t, "stream"),
			Type:       rapid.SampledFrom([]string{"image", "text", "application", "x-a"}).Draw(t, "maj") + "/" + rapid.SampledFrom([]string{"png", "plain", "json", "octet-stream", "x.y-z"}).Draw(t, "min"),
			Name:       rapid.StringMatching(`[a-zA-Z0-9._~-]{1,8}`).Draw(t, "name"),
			ReqType:    rapid.SampledFrom([]string{"", "text/plain", "application/json", "application/octet-stream", "image/gif", "application/protobuf"}).Draw(t, "reqType"),
			QueryFirst: rapid.Bool().Draw(t, "queryFirst"),
			Data:       rapid.SliceOfN(rapid.Byte(), 0, 40).Draw(t, "data"),
		}
		c.UseHelper = c.Stream && rapid.Bool().Draw(t, "helper")
		c.Bidi = c.Stream && rapid.IntRange(0, 2).Draw(t, "bidi") == 0
		c.WriterFirst = c.Bidi && rapid.Bool().Draw(t, "writerFirst")
		if rapid.Bool().Draw(t, "qType") {
			c.QueryType = rapid.SampledFrom([]string{"application/evil", "text/html", "a/b"}).Draw(t, "queryType")
		}
		if rapid.Bool().Draw(t, "qName") {
			c.QueryName = rapid.SampledFrom([]string{"evil.exe", "x", "other"}).Draw(t, "queryName")
		}
		vs, delivered := CheckHB(c)
		key := ""
		if delivered && (c.ReqType != "" && c.ReqType != c.Type || c.QueryType != "" || c.QueryName != "") {
			key = fmt.Sprintf("hb|%v|%v|%s|%v|%v|%v|%v|%v", c.Stream, c.UseHelper, c.ReqType, c.QueryType != "", c.QueryName != "", c.QueryFirst, c.Bidi, c.WriterFirst)
		}
		cl := []string{"httpbody-upload"}
		if c.UseHelper {
			cl = append(cl, "httpbody-upload:AsHTTPBodyReader")
		}
		if c.WriterFirst {
			cl = append(cl, "httpbody-upload:AsHTTPBodyWriter-before-first-receive")
		}
		if delivered {
			cl = append(cl, "httpbody-upload:delivered")
		}
		evid.Eval(key, cl...)
		evid.Sample("httpbody-upload", c)
		evid.Report(t, prop, map[string]any{"kind": "httpbody", "hb": c}, vs)
	})
}
