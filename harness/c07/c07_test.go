// C07 — path-bound fields are authoritative.
package c07

import (
	"bytes"
	"context"
	"fmt"
	"io"
	"net"
	"net/http"
	"net/http/httptest"
	"net/url"
	"os"
	"strings"
	"sync"
	"testing"
	"time"

	"github.com/gobwas/ws"
	"github.com/gobwas/ws/wsutil"

	"google.golang.org/genproto/googleapis/api/annotations"
	"google.golang.org/grpc"
	"google.golang.org/protobuf/encoding/protojson"
	"google.golang.org/protobuf/proto"
	"google.golang.org/protobuf/reflect/protoreflect"
	"google.golang.org/protobuf/types/descriptorpb"
	"google.golang.org/protobuf/types/dynamicpb"
	"larking.io/larking"
	"pgregory.net/rapid"

	"verif/drive"
	"verif/dyn"
	"verif/evid"
	"verif/ref"
)

const prop = "C07"

func TestMain(m *testing.M) {
	code := m.Run()
	evid.Flush()
	os.Exit(code)
}

// VarSpec is one path variable with its captured text and the competing text.
type VarSpec struct {
	Field   string `json:"field"`   // dotted proto field path
	Pattern string `json:"pattern"` // "", "lit/*", "**", "lit/**"
	V1      string `json:"v1"`      // text captured from the path (whole capture)
	V2      string `json:"v2"`      // competing text
}

// Case is one generated request against one generated rule.
type Case struct {
	Verb         string    `json:"verb"`
	Prefix       string    `json:"prefix"`
	Mid          string    `json:"mid"`
	Suffix       string    `json:"suffix"` // "", "/lit", ":verb"
	Vars         []VarSpec `json:"vars"`
	Body         string    `json:"body"`  // "", "*", "book"
	Codec        string    `json:"codec"` // json | proto
	QueryCompete []bool    `json:"query_compete"`
	JSONKeys     bool      `json:"json_keys"`
	QueryTwice   bool      `json:"query_twice"`
	BodyCompete  []bool    `json:"body_compete"`
	Other        string    `json:"other"`
	OtherInBody  bool      `json:"other_in_body"`
	// SubCompete: the query additionally names something INSIDE the path-bound
	// field (a sub-field of a well-known-type message, or the sibling member
	// of its oneof) - that must not disturb the path value either.
	SubCompete []bool `json:"sub_compete"`
	// WS: the rule is a WebSocket binding; the body travels as the first data
	// frame, preceded by WSEmpty zero-length frames (text or binary).
	// Stream: the method is client-streaming over plain HTTP; the body is a stream of messages whose
	// first one carries the competing values (the URL is bound to the first message of a stream).
	Stream      bool `json:"stream"`
	StreamExtra int  `json:"stream_extra"` // further (empty) messages after the first
	Later       bool `json:"later"`        // another service is registered on the mux after the one under test
	WS          bool `json:"ws"`
	WSEmpty     int  `json:"ws_empty"`
	WSBinary    bool `json:"ws_binary"`
	// WSGreet (with WS): the method is bidi-streaming and its handler speaks first - it sends a greeting
	// before its first receive, as chat-like services do
	WSGreet bool `json:"ws_greet"`
}

// subKey returns the query key/value that reaches into field f.
func subKey(f, kind string) (string, string, bool) {
	switch kind {
	case "mask":
		return f + ".paths", "secret", true
	case "dur":
		return f + ".seconds", "100", true
	case "wi":
		return f + ".value", "7", true
	case "ws":
		return f + ".value", "fromQuery", true
	}
	if f == "o_name" {
		return "o_inner.id", "fromQuery", true
	}
	return "", "", false
}

var msgs = []*descriptorpb.DescriptorProto{
	dyn.Msg("Inner", dyn.F("id", 1, dyn.String), dyn.F("big_num", 2, dyn.Int64)),
	dyn.Msg("Book",
		dyn.F("display_name", 1, dyn.String),
		dyn.F("pages", 2, dyn.Int32),
		dyn.F("inner", 3, dyn.Message, dyn.Of(".c7.Inner")),
		dyn.F("title", 4, dyn.String)),
	dyn.Msg("Req",
		dyn.F("name", 1, dyn.String),
		dyn.F("shelf_id", 2, dyn.Int64),
		dyn.F("book", 3, dyn.Message, dyn.Of(".c7.Book")),
		dyn.F("other", 4, dyn.String),
		dyn.F("sub", 5, dyn.Message, dyn.Of(".c7.Inner")),
		dyn.F("count", 6, dyn.Uint32),
		// well-known types are legal path variables too (decoded from their JSON text form)
		dyn.F("update_mask", 7, dyn.Message, dyn.Of(".google.protobuf.FieldMask")),
		dyn.F("ttl", 8, dyn.Message, dyn.Of(".google.protobuf.Duration")),
		dyn.F("limit", 9, dyn.Message, dyn.Of(".google.protobuf.Int32Value")),
		dyn.F("label", 10, dyn.Message, dyn.Of(".google.protobuf.StringValue")),
		dyn.F("o_name", 11, dyn.String, dyn.InOneof(0)),
		dyn.F("o_inner", 12, dyn.Message, dyn.Of(".c7.Inner"), dyn.InOneof(0))),
}

func init() {
	msgs[2].OneofDecl = []*descriptorpb.OneofDescriptorProto{{Name: proto.String("choice")}}
}

var fieldKinds = map[string]string{
	"name": "s", "shelf_id": "i", "book.display_name": "s", "book.pages": "i",
	"book.inner.id": "s", "book.inner.big_num": "i", "sub.id": "s", "sub.big_num": "i", "count": "u", "book.title": "s",
	"update_mask": "mask", "ttl": "dur", "limit": "wi", "label": "ws", "o_name": "s",
}
var fieldNames = []string{"name", "shelf_id", "book.display_name", "book.pages", "book.inner.id", "book.inner.big_num", "sub.id", "sub.big_num", "count", "book.title", "update_mask", "ttl", "limit", "label", "o_name"}

func (c Case) template() string {
	var sb strings.Builder
	sb.WriteString("/" + c.Prefix)
	for i, v := range c.Vars {
		if i == 1 {
			sb.WriteString("/" + c.Mid)
		}
		sb.WriteString("/{" + v.Field)
		if v.Pattern != "" {
			sb.WriteString("=" + v.Pattern)
		}
		sb.WriteString("}")
	}
	sb.WriteString(c.Suffix)
	return sb.String()
}

func (c Case) path() string {
	var sb strings.Builder
	sb.WriteString("/" + c.Prefix)
	for i, v := range c.Vars {
		if i == 1 {
			sb.WriteString("/" + c.Mid)
		}
		sb.WriteString("/" + v.V1)
	}
	sb.WriteString(c.Suffix)
	return sb.String()
}

func (c Case) rule() *annotations.HttpRule {
	r := &annotations.HttpRule{Body: c.Body}
	t := c.template()
	if c.WS {
		r.Pattern = &annotations.HttpRule_Custom{Custom: &annotations.CustomHttpPattern{Kind: "websocket", Path: t}}
		return r
	}
	switch c.Verb {
	case "GET":
		r.Pattern = &annotations.HttpRule_Get{Get: t}
	case "PUT":
		r.Pattern = &annotations.HttpRule_Put{Put: t}
	case "POST":
		r.Pattern = &annotations.HttpRule_Post{Post: t}
	case "DELETE":
		r.Pattern = &annotations.HttpRule_Delete{Delete: t}
	case "PATCH":
		r.Pattern = &annotations.HttpRule_Patch{Patch: t}
	}
	return r
}

func jsonKey(md protoreflect.MessageDescriptor, field string, jsonNames bool) string {
	parts := strings.Split(field, ".")
	fds := ref.ResolvePath(md, parts)
	for i, fd := range fds {
		if jsonNames {
			parts[i] = fd.JSONName()
		} else {
			parts[i] = string(fd.Name())
		}
	}
	return strings.Join(parts, ".")
}

// setText sets field (dotted) of m from URL text using the protojson referee.
func setText(m *dynamicpb.Message, field, text string) error {
	md := m.Descriptor()
	fds := ref.ResolvePath(md, strings.Split(field, "."))
	if fds == nil {
		return fmt.Errorf("no field %s", field)
	}
	vals := ref.Referee(md, fds, text)
	if len(vals) == 0 {
		return fmt.Errorf("text %q not valid for %s", text, field)
	}
	v, _ := ref.GetPath(vals[0].ProtoReflect(), fds)
	if fds[len(fds)-1].Kind() == protoreflect.StringKind {
		v = protoreflect.ValueOfString(text)
	}
	if fds[len(fds)-1].Message() != nil && fds[len(fds)-1].Message().Name() == "StringValue" {
		// bare text is the string itself
		sv := dynamicpb.NewMessage(fds[len(fds)-1].Message())
		sv.Set(sv.Descriptor().Fields().ByName("value"), protoreflect.ValueOfString(text))
		v = protoreflect.ValueOfMessage(sv)
	}
	ref.SetPath(m.ProtoReflect(), fds, v)
	return nil
}

// Check drives one case and applies the oracle.
func Check(c Case) (vs []evid.Violation, delivered bool) {
	svc := dyn.Svc("Svc", dyn.MethodSpec{Name: "Do", In: ".c7.Req", Out: ".c7.Req", Rule: c.rule(), ClientStream: c.Stream || (c.WS && c.WSGreet), ServerStream: c.WS && c.WSGreet})
	laterSvc := dyn.Svc("Later", dyn.MethodSpec{Name: "Other", In: ".c7.Req", Out: ".c7.Req"})
	w, err := dyn.NewWorld(dyn.File("c7.proto", "c7", msgs, nil, []*descriptorpb.ServiceDescriptorProto{svc, laterSvc}))
	if err != nil {
		panic(err)
	}
	var gotMu sync.Mutex
	var got []proto.Message
	sd := w.ServiceDesc("c7.Svc", func(ctx context.Context, fm string, req *dynamicpb.Message) (proto.Message, error) {
		gotMu.Lock()
		got = append(got, proto.Clone(req))
		gotMu.Unlock()
		return req, nil
	}, func(full string, in, out protoreflect.MessageDescriptor, ss grpc.ServerStream) error {
		var first proto.Message
		if c.WS && c.WSGreet {
			if err := ss.SendMsg(dynamicpb.NewMessage(out)); err != nil {
				return err
			}
			m := dynamicpb.NewMessage(in)
			if err := ss.RecvMsg(m); err != nil {
				return err
			}
			gotMu.Lock()
			got = append(got, proto.Clone(m))
			gotMu.Unlock()
			return nil
		}
		for {
			m := dynamicpb.NewMessage(in)
			if err := ss.RecvMsg(m); err != nil {
				if err != io.EOF {
					return err
				}
				break
			}
			if first == nil {
				first = proto.Clone(m)
				gotMu.Lock()
				got = append(got, first)
				gotMu.Unlock()
			}
		}
		if first == nil {
			first = dynamicpb.NewMessage(out)
		}
		return ss.SendMsg(first)
	})
	mux, err := larking.NewMux(larking.FilesOption(w.Files))
	if err != nil {
		panic(err)
	}
	if err := mux.VerifRegisterService(sd, nil); err != nil {
		return []evid.Violation{evid.V("register", "", "rule %s body=%q rejected: %v", c.template(), c.Body, err)}, false
	}
	if c.Later {
		// a later registration clones the routing state: the copy must carry every binding unchanged
		later := w.ServiceDesc("c7.Later", func(ctx context.Context, fm string, req *dynamicpb.Message) (proto.Message, error) { return req, nil }, nil)
		if err := mux.VerifRegisterService(later, nil); err != nil {
			panic(err)
		}
	}

	md := w.MsgDesc("c7.Req")
	// Expected message: path values + other fields as sent.
	want := dynamicpb.NewMessage(md)
	for _, v := range c.Vars {
		if err := setText(want, v.Field, v.V1); err != nil {
			panic(err)
		}
	}
	// Body message (client side): competing values plus other.
	var bodyMsg *dynamicpb.Message
	inBook := func(f string) bool { return strings.HasPrefix(f, "book.") }
	switch c.Body {
	case "*":
		bodyMsg = dynamicpb.NewMessage(md)
		for i, v := range c.Vars {
			if c.BodyCompete[i] {
				if err := setText(bodyMsg, v.Field, v.V2); err != nil {
					panic(err)
				}
			}
		}
		if c.OtherInBody && c.Other != "" {
			setText(bodyMsg, "other", c.Other)
			setText(want, "other", c.Other)
		}
	case "book":
		bodyMsg = dynamicpb.NewMessage(w.MsgDesc("c7.Book"))
		tmp := dynamicpb.NewMessage(md)
		for i, v := range c.Vars {
			if c.BodyCompete[i] && inBook(v.Field) {
				if err := setText(tmp, v.Field, v.V2); err != nil {
					panic(err)
				}
			}
		}
		if c.OtherInBody && c.Other != "" {
			setText(tmp, "book.title", c.Other)
			if !varIs(c, "book.title") {
				setText(want, "book.title", c.Other)
			}
		}
		proto.Merge(bodyMsg, tmp.Get(md.Fields().ByName("book")).Message().Interface())
	}
	q := url.Values{}
	for i, v := range c.Vars {
		if c.QueryCompete[i] {
			k := jsonKey(md, v.Field, c.JSONKeys)
			q.Add(k, v.V2)
			if c.QueryTwice {
				q.Add(k, v.V2)
			}
		}
	}
	for i, v := range c.Vars {
		if i < len(c.SubCompete) && c.SubCompete[i] {
			if k, val, ok := subKey(v.Field, fieldKinds[v.Field]); ok {
				q.Add(k, val)
			}
		}
	}
	if !c.OtherInBody && c.Other != "" && !varIs(c, "other") {
		q.Add("other", c.Other)
		setText(want, "other", c.Other)
	}

	hdr := http.Header{}
	var body []byte
	if bodyMsg != nil {
		if c.Codec == "proto" {
			hdr.Set("Content-Type", "application/protobuf")
			body, _ = proto.Marshal(bodyMsg)
		} else {
			hdr.Set("Content-Type", "application/json")
			body, _ = protojson.Marshal(bodyMsg)
		}
	}
	var res drive.Result
	if c.WS {
		if v := wsExchange(mux, c, q.Encode(), body, bodyMsg != nil); v != nil {
			return []evid.Violation{*v}, false
		}
		res.Rec = httptest.NewRecorder()
	} else {
		var req *http.Request
		if c.Stream && bodyMsg != nil {
			// a stream body: the first message, then StreamExtra empty ones
			var sb bytes.Buffer
			if c.Codec == "proto" {
				larking.CodecProto{}.WriteNext(&sb, body)
				for i := 0; i < c.StreamExtra; i++ {
					larking.CodecProto{}.WriteNext(&sb, nil)
				}
			} else {
				sb.Write(body)
				for i := 0; i < c.StreamExtra; i++ {
					sb.WriteString("{}")
				}
			}
			req = drive.Request(c.Verb, c.path(), q.Encode(), hdr, bytes.NewReader(sb.Bytes()), -1)
		} else if len(body) > 0 {
			req = drive.Request(c.Verb, c.path(), q.Encode(), hdr, bytes.NewReader(body), int64(len(body)))
		} else {
			req = drive.Request(c.Verb, c.path(), q.Encode(), hdr, nil, 0)
		}
		res = drive.Serve(mux, req)
		if res.Panic != nil {
			return []evid.Violation{evid.V("panic", res.PanicSig(), "panic: %v", res.Panic)}, false
		}
	}
	gotMu.Lock()
	defer gotMu.Unlock()
	if len(got) == 0 {
		// Rejecting the request is allowed by the property (the handler
		// never sees a replaced value); it is only counted.
		evid.Sample("rejected", map[string]any{"case": c, "status": res.Rec.Code, "body": res.Rec.Body.String()})
		evid.Class(fmt.Sprintf("rejected-status=%d", res.Rec.Code))
		return nil, false
	}
	g := got[0]
	for _, v := range c.Vars {
		fds := ref.ResolvePath(md, strings.Split(v.Field, "."))
		gv, _ := ref.GetPath(g.ProtoReflect(), fds)
		wv, _ := ref.GetPath(want.ProtoReflect(), fds)
		if !gv.IsValid() || !gv.Equal(wv) {
			vs = append(vs, evid.V("path-value-replaced", "", "field %s: handler got %v, path captured %q (competing %q) on %s %s?%s body=%s",
				v.Field, gv, v.V1, v.V2, c.Verb, c.path(), q.Encode(), body))
		}
	}
	// body:"book" may materialise an empty sub-message; presence of an empty
	// book is not part of this property.
	for _, m := range []proto.Message{g, want} {
		bf := md.Fields().ByName("book")
		if r := m.ProtoReflect(); r.Has(bf) && proto.Size(r.Get(bf).Message().Interface()) == 0 {
			r.Clear(bf)
		}
	}
	if len(vs) == 0 && !proto.Equal(g, want) {
		vs = append(vs, evid.V("other-fields", "", "handler got %v want %v", g, want))
	}
	return vs, true
}

// wsExchange dials the rule over a real connection (WebSocket needs a
// hijackable one), sends the empty frames and then the body frame, and waits
// for the server's close frame. It returns a violation only when the harness
// itself can not talk to the server.
func wsExchange(mux http.Handler, c Case, rawQuery string, body []byte, hasBody bool) *evid.Violation {
	real := drive.Real()
	real.Use(mux)
	u := "ws://" + real.Addr + (&url.URL{Path: c.path()}).EscapedPath()
	if rawQuery != "" {
		u += "?" + rawQuery
	}
	ctx, cancel := context.WithTimeout(context.Background(), 10*time.Second)
	defer cancel()
	conn, br, _, err := ws.Dial(ctx, u)
	if err != nil {
		return nil // refused at the handshake: nothing was delivered
	}
	defer conn.Close()
	conn.SetDeadline(time.Now().Add(10 * time.Second))
	var rd io.Reader = conn
	if br != nil {
		rd = br
	}
	op := ws.OpText
	if c.WSBinary {
		op = ws.OpBinary
	}
	if hasBody {
		for i := 0; i < c.WSEmpty; i++ {
			if wsutil.WriteClientMessage(conn, op, nil) != nil {
				return nil
			}
		}
		if wsutil.WriteClientMessage(conn, op, body) != nil {
			return nil
		}
	}
	for {
		f, err := ws.ReadFrame(rd)
		if err != nil {
			if ne, ok := err.(net.Error); ok && ne.Timeout() {
				v := evid.V("ws-hang", "ws-hang", "no close frame within 10 s on %s", u)
				return &v
			}
			return nil
		}
		if f.Header.OpCode == ws.OpClose {
			return nil
		}
	}
}

func varIs(c Case, f string) bool {
	for _, v := range c.Vars {
		if v.Field == f {
			return true
		}
	}
	return false
}

var segGen = rapid.StringMatching(`[a-zA-Z0-9._~-]{1,6}`)
var litGen = rapid.SampledFrom([]string{"v1", "books", "shelves", "items", "x-y", "a.b"})

func genText(t *rapid.T, kind, pattern, label string) string {
	leaf := func(l string) string {
		switch kind {
		case "i":
			return fmt.Sprint(rapid.Int32().Draw(t, l))
		case "u":
			return fmt.Sprint(rapid.Uint32().Draw(t, l))
		case "mask":
			n := rapid.IntRange(1, 3).Draw(t, l+"n")
			var ps []string
			for i := 0; i < n; i++ {
				ps = append(ps, rapid.SampledFrom([]string{"title", "secret", "displayName", "book.pages", "name", "a"}).Draw(t, l))
			}
			return strings.Join(ps, ",")
		case "dur":
			return rapid.SampledFrom([]string{"0s", "3s", "1.500s", "-2s", "0.000000001s", "86400s"}).Draw(t, l)
		case "wi":
			return fmt.Sprint(rapid.SampledFrom([]int32{0, 0, 7, -1, 2147483647}).Draw(t, l))
		case "ws":
			return segGen.Draw(t, l)
		}
		return segGen.Draw(t, l)
	}
	switch pattern {
	case "":
		return leaf(label)
	case "**":
		n := rapid.IntRange(1, 3).Draw(t, label+"n")
		var parts []string
		for i := 0; i < n; i++ {
			parts = append(parts, leaf(fmt.Sprint(label, i)))
		}
		return strings.Join(parts, "/")
	default: // "lit/*" or "lit/**"
		lit, rest, _ := strings.Cut(pattern, "/")
		return lit + "/" + genText(t, kind, strings.TrimPrefix(rest, "*")+map[bool]string{true: "*", false: ""}[rest == "**"], label)
	}
}

func genCase(t *rapid.T) Case {
	c := Case{
		Verb:   rapid.SampledFrom([]string{"GET", "POST", "PUT", "PATCH", "DELETE"}).Draw(t, "verb"),
		Prefix: litGen.Draw(t, "prefix"),
		Mid:    litGen.Draw(t, "mid"),
		Body:   rapid.SampledFrom([]string{"", "*", "book"}).Draw(t, "body"),
		Codec:  rapid.SampledFrom([]string{"json", "proto"}).Draw(t, "codec"),
	}
	nv := rapid.IntRange(1, 2).Draw(t, "nvars")
	used := map[string]bool{}
	for i := 0; i < nv; i++ {
		f := rapid.SampledFrom(fieldNames).Filter(func(s string) bool { return !used[s] }).Draw(t, "field")
		used[f] = true
		kind := fieldKinds[f]
		pat := ""
		last := i == nv-1
		if kind == "s" {
			opts := []string{"", "", "shelves/*"}
			if last {
				opts = append(opts, "**", "items/**")
			}
			pat = rapid.SampledFrom(opts).Draw(t, "pattern")
		}
		v := VarSpec{Field: f, Pattern: pat}
		v.V1 = genText(t, kind, pat, "v1")
		v.V2 = genText(t, kind, pat, "v2")
		if v.V2 == v.V1 {
			if kind == "mask" {
				v.V2 += ",other"
			} else if kind == "dur" {
				v.V2 = "9s"
				if v.V1 == "9s" {
					v.V2 = "1s"
				}
			} else if kind == "s" || kind == "ws" {
				v.V2 += "x"
			} else if strings.HasPrefix(v.V1, "1") {
				v.V2 = "2"
			} else {
				v.V2 = "1"
			}
		}
		c.Vars = append(c.Vars, v)
	}
	c.Suffix = rapid.SampledFrom([]string{"", "", "/tail", ":read"}).Draw(t, "suffix")
	if strings.HasSuffix(c.Vars[len(c.Vars)-1].Pattern, "**") && c.Suffix == "/tail" {
		c.Suffix = "" // a "**" that is not last is outside google's grammar
	}
	c.JSONKeys = rapid.Bool().Draw(t, "jsonKeys")
	c.QueryTwice = rapid.Bool().Draw(t, "twice")
	c.Other = rapid.SampledFrom([]string{"", "o1", "other value"}).Draw(t, "other")
	c.OtherInBody = rapid.Bool().Draw(t, "otherInBody")
	any := false
	for _, v := range c.Vars {
		qc := rapid.Bool().Draw(t, "qc")
		bc := rapid.Bool().Draw(t, "bc")
		if c.Body == "" || (c.Body == "book" && !strings.HasPrefix(v.Field, "book.")) {
			bc = false
		}
		sc := rapid.Bool().Draw(t, "sc")
		if _, _, ok := subKey(v.Field, fieldKinds[v.Field]); !ok {
			sc = false
		}
		c.QueryCompete = append(c.QueryCompete, qc)
		c.BodyCompete = append(c.BodyCompete, bc)
		c.SubCompete = append(c.SubCompete, sc)
		any = any || qc || bc || sc
	}
	if !any {
		c.QueryCompete[0] = true
	}
	if c.Body == "" {
		c.OtherInBody = false
	}
	c.Later = rapid.IntRange(0, 3).Draw(t, "later") == 0
	if rapid.IntRange(0, 9).Draw(t, "stream") == 0 {
		c.Stream = true
		c.StreamExtra = rapid.IntRange(0, 2).Draw(t, "streamExtra")
	} else if rapid.IntRange(0, 19).Draw(t, "ws") == 0 {
		// the same rule as a WebSocket binding (JSON frames); a few zero-length frames may precede the message
		c.WS, c.Codec = true, "json"
		c.WSEmpty = rapid.SampledFrom([]int{0, 0, 1, 2}).Draw(t, "wsEmpty")
		c.WSBinary = rapid.Bool().Draw(t, "wsBinary")
		c.WSGreet = rapid.IntRange(0, 2).Draw(t, "wsGreet") == 0
	}
	return c
}

func classes(c Case, delivered bool) (string, []string) {
	var cl []string
	key := c.Verb + "|" + c.Body + "|" + c.Codec + "|" + c.Suffix
	cl = append(cl, "body="+c.Body, "codec="+c.Codec)
	for i, v := range c.Vars {
		ch := ""
		if c.QueryCompete[i] {
			ch += "q"
		}
		if c.BodyCompete[i] {
			ch += "b"
		}
		if i < len(c.SubCompete) && c.SubCompete[i] {
			ch += "s"
		}
		key += fmt.Sprintf("|%s=%s:%s", v.Field, v.Pattern, ch)
		cl = append(cl, "channel="+ch, "kind="+fieldKinds[v.Field])
		if strings.Contains(v.Field, ".") {
			cl = append(cl, "nested-field")
		}
		if v.Pattern != "" {
			cl = append(cl, "multi-segment-pattern")
		}
	}
	key += fmt.Sprintf("|json=%v|twice=%v|ws=%v,%d,%v,%v", c.JSONKeys, c.QueryTwice, c.WS, c.WSEmpty, c.WSBinary, c.WSGreet)
	if c.WS {
		cl = append(cl, fmt.Sprintf("websocket-binding:empty-frames=%d", c.WSEmpty))
		if c.WSGreet {
			cl = append(cl, "websocket-handler-speaks-first")
		}
	}
	if c.Later {
		cl = append(cl, "later-registration-on-the-mux")
	}
	if c.Stream {
		cl = append(cl, "http-client-stream")
		key += fmt.Sprintf("|stream=%d", c.StreamExtra)
	}
	if delivered {
		cl = append(cl, "delivered")
	} else {
		cl = append(cl, "rejected")
		key = "" // a rejected request does not exercise the oracle
	}
	return key, cl
}

func TestProp(t *testing.T) {
	rapid.Check(t, func(t *rapid.T) {
		c := genCase(t)
		vs, delivered := Check(c)
		key, cl := classes(c, delivered)
		evid.Eval(key, cl...)
		evid.Sample("case", c)
		evid.Report(t, prop, c, vs)
	})
}

func TestReplay(t *testing.T) {
	path := os.Getenv("VERIF_REPLAY")
	if path == "" {
		t.Skip("VERIF_REPLAY not set")
	}
	var tagged struct {
		Kind string  `json:"kind"`
		HB   *HBCase `json:"hb"`
	}
	if err := evid.LoadReplay(path, &tagged); err == nil && tagged.Kind == "httpbody" && tagged.HB != nil {
		vs, _ := CheckHB(*tagged.HB)
		evid.Report(t, prop, map[string]any{"kind": "httpbody", "hb": *tagged.HB}, vs)
		return
	}
	var c Case
	if err := evid.LoadReplay(path, &c); err != nil {
		t.Fatal(err)
	}
	vs, _ := Check(c)
	evid.Report(t, prop, c, vs)
}
