// C04 — unary response fidelity and truthful response headers.
package c04

import (
	"bytes"
	"compress/gzip"
	"context"
	"fmt"
	"io"
	"net/http"
	"os"
	"strings"
	"sync"
	"testing"

	"google.golang.org/genproto/googleapis/api/annotations"
	"google.golang.org/genproto/googleapis/api/httpbody"
	"google.golang.org/grpc"
	"google.golang.org/grpc/metadata"
	"google.golang.org/protobuf/encoding/protojson"
	"google.golang.org/protobuf/proto"
	"google.golang.org/protobuf/reflect/protoreflect"
	"google.golang.org/protobuf/types/dynamicpb"
	"larking.io/larking"
	"pgregory.net/rapid"

	"verif/drive"
	"verif/dyn"
	"verif/evid"
	"verif/ref"
	"verif/uni"
)

const prop = "C04"

func TestMain(m *testing.M) {
	code := m.Run()
	evid.Flush()
	os.Exit(code)
}

// Case is one unary call with a scripted reply.
type Case struct {
	Route          string   `json:"route"` // plain | rb-nest | rb-leaf | rb-body | raw
	Verb           string   `json:"verb"`
	Accept         []string `json:"accept"`          // header lines (nil = header absent)
	AcceptEncoding []string `json:"accept_encoding"` // header lines
	ContentType    string   `json:"content_type"`    // request content type ("" = none)
	Reply          []byte   `json:"reply"`           // wire form of un.All (routes plain/rb-*)
	RawType        string   `json:"raw_type"`        // HttpBody content type (routes raw / rb-body)
	RawData        []byte   `json:"raw_data"`
	Custom         bool     `json:"custom"`      // the mux also registers a codec of its own under a non-default type (CodecOption("application/x-protobuf", CodecProto)): a registered codec like the others
	ForgeType      string   `json:"forge_type"`  // with a HeaderMode: the handler's header metadata also carries content-type = this
	HeaderMode     string   `json:"header_mode"` // "", "set" (grpc.SetHeader) or "send" (grpc.SendHeader) before the reply is returned
	Later          int      `json:"later"`       // further registrations on the same mux after the service under test (0-2)
	ReqGzip        bool     `json:"req_gzip"`    // POST: the request body itself travels gzip-compressed (Content-Encoding: gzip)
	Cached         int      `json:"cached"`      // > 0: the handler returns one long-lived reply object (a cached asset); the request is first served Cached times, each followed by an unrelated larger request on the same mux, before the reply under test is fetched
}

var (
	worldOnce sync.Once
	world     *dyn.World
)

func theWorld() *dyn.World {
	worldOnce.Do(func() {
		get := func(p string) *annotations.HttpRule {
			return &annotations.HttpRule{Pattern: &annotations.HttpRule_Get{Get: p}, AdditionalBindings: []*annotations.HttpRule{{Pattern: &annotations.HttpRule_Post{Post: p}, Body: "*"}}}
		}
		rb := func(p, sel string) *annotations.HttpRule {
			r := get(p)
			r.ResponseBody = sel
			r.AdditionalBindings[0].ResponseBody = sel
			return r
		}
		world = uni.WorldWith(dyn.Svc("C4",
			dyn.MethodSpec{Name: "Plain", In: ".un.All", Out: ".un.All", Rule: get("/c4/plain")},
			dyn.MethodSpec{Name: "RbNest", In: ".un.All", Out: ".un.All", Rule: rb("/c4/rb-nest", "nest")},
			dyn.MethodSpec{Name: "RbLeaf", In: ".un.All", Out: ".un.All", Rule: rb("/c4/rb-leaf", "nest.leaf")},
			dyn.MethodSpec{Name: "RbBody", In: ".un.All", Out: ".un.All", Rule: rb("/c4/rb-body", "http_body")},
			dyn.MethodSpec{Name: "Raw", In: ".un.All", Out: ".google.api.HttpBody", Rule: get("/c4/raw")},
			// replies and selections that are well-known types: their JSON form is not an object
			dyn.MethodSpec{Name: "RbTs", In: ".un.All", Out: ".un.All", Rule: rb("/c4/rb-ts", "ts")},
			dyn.MethodSpec{Name: "RbDur", In: ".un.All", Out: ".un.All", Rule: rb("/c4/rb-dur", "dur")},
			dyn.MethodSpec{Name: "RbMask", In: ".un.All", Out: ".un.All", Rule: rb("/c4/rb-mask", "mask")},
			dyn.MethodSpec{Name: "RbWint", In: ".un.All", Out: ".un.All", Rule: rb("/c4/rb-wint", "w_int32")},
			dyn.MethodSpec{Name: "RbWstr", In: ".un.All", Out: ".un.All", Rule: rb("/c4/rb-wstr", "w_string")},
			dyn.MethodSpec{Name: "WktTs", In: ".un.All", Out: ".google.protobuf.Timestamp", Rule: get("/c4/wkt-ts")},
			dyn.MethodSpec{Name: "WktDur", In: ".un.All", Out: ".google.protobuf.Duration", Rule: get("/c4/wkt-dur")},
		), dyn.Svc("C4Later",
			// registered AFTER C4 in some cases: a later registration must not disturb the earlier bindings
			dyn.MethodSpec{Name: "Other", In: ".un.All", Out: ".un.All", Rule: get("/c4later/other")},
		))
	})
	return world
}

const customType = "application/x-protobuf"

var registered = []string{"application/json", "application/octet-stream", "application/protobuf"}

func isRegistered(ct string) bool {
	for _, r := range registered {
		if r == ct {
			return true
		}
	}
	return false
}

type info struct {
	contested bool
	adm       int
	status    int
}

// otherCodec is the codec of the neighbouring mux: nothing it writes decodes.
type otherCodec struct{}

func (otherCodec) Name() string                    { return "other" }
func (otherCodec) Marshal(v any) ([]byte, error)   { return []byte("\x00other mux\x00"), nil }
func (otherCodec) Unmarshal(b []byte, v any) error { return nil }
func (otherCodec) MarshalAppend(b []byte, v any) ([]byte, error) {
	return append(b, "\x00other mux\x00"...), nil
}

func Check(c Case) ([]evid.Violation, info) {
	w := theWorld()
	// another mux exists in the process whose options replace the JSON codec and add one more type: the
	// options of one mux say nothing about another. (Built in every case, so that a replay file does not
	// depend on what an earlier case left behind in the process.)
	if _, err := larking.NewMux(larking.CodecOption("application/json", otherCodec{}), larking.CodecOption("application/x-other", otherCodec{})); err != nil {
		panic(err)
	}
	md := w.MsgDesc("un.All")
	reply := dynamicpb.NewMessage(md)
	if err := proto.Unmarshal(c.Reply, reply); err != nil {
		panic(err)
	}
	if c.Route == "rb-body" {
		hb := &httpbody.HttpBody{ContentType: c.RawType, Data: c.RawData}
		b, _ := proto.Marshal(hb)
		sub := reply.Mutable(md.Fields().ByName("http_body")).Message().Interface()
		if err := proto.Unmarshal(b, sub); err != nil {
			panic(err)
		}
	}
	// the handler's own long-lived memory (Cached > 0): the same objects are returned on every call
	asset := &httpbody.HttpBody{ContentType: c.RawType, Data: append([]byte{}, c.RawData...)}
	cached := proto.Clone(reply)
	sd := w.ServiceDesc("un.C4", func(ctx context.Context, fm string, req *dynamicpb.Message) (proto.Message, error) {
		hmd := metadata.Pairs("x-c4", "1")
		if c.ForgeType != "" {
			// metadata named like the protocol's own header (a handler mirroring its incoming metadata does this
			// without meaning to): the response Content-Type still has to name the codec of the bytes sent
			hmd.Set("content-type", c.ForgeType)
		}
		switch c.HeaderMode {
		case "set":
			grpc.SetHeader(ctx, hmd)
		case "send":
			grpc.SendHeader(ctx, hmd)
		}
		if strings.HasSuffix(fm, "/Raw") {
			if c.Cached > 0 {
				return asset, nil
			}
			return &httpbody.HttpBody{ContentType: c.RawType, Data: c.RawData}, nil
		}
		if strings.HasSuffix(fm, "/WktTs") || strings.HasSuffix(fm, "/WktDur") {
			// the reply IS the well-known type (the reply message's ts / dur field, possibly unset = zero)
			name := map[bool]string{true: "ts", false: "dur"}[strings.HasSuffix(fm, "/WktTs")]
			fd := reply.Descriptor().Fields().ByName(protoreflect.Name(name))
			out := dynamicpb.NewMessage(fd.Message())
			if reply.Has(fd) {
				proto.Merge(out, reply.Get(fd).Message().Interface())
			}
			return out, nil
		}
		if c.Cached > 0 {
			return cached, nil
		}
		return proto.Clone(reply), nil
	}, nil)
	mopts := []larking.MuxOption{larking.FilesOption(w.Files)}
	registered := registered
	if c.Custom {
		mopts = append(mopts, larking.CodecOption(customType, larking.CodecProto{}))
		registered = append(append([]string{}, registered...), customType)
	}
	isRegistered := func(ct string) bool {
		for _, r := range registered {
			if r == ct {
				return true
			}
		}
		return false
	}
	mux, err := larking.NewMux(mopts...)
	if err != nil {
		panic(err)
	}
	if err := mux.VerifRegisterService(sd, nil); err != nil {
		return []evid.Violation{evid.V("register", "", "registration failed: %v", err)}, info{}
	}
	for i := 0; i < c.Later; i++ {
		// every registration works on a copy of the routing state: the copy must carry everything
		later := w.ServiceDesc("un.C4Later", func(ctx context.Context, fm string, req *dynamicpb.Message) (proto.Message, error) {
			return req, nil
		}, nil)
		if err := mux.VerifRegisterService(later, nil); err != nil {
			return []evid.Violation{evid.V("register", "", "later registration failed: %v", err)}, info{}
		}
	}
	hdr := http.Header{}
	if c.Accept != nil {
		hdr["Accept"] = c.Accept
	}
	if c.AcceptEncoding != nil {
		hdr["Accept-Encoding"] = c.AcceptEncoding
	}
	if c.ContentType != "" {
		hdr.Set("Content-Type", c.ContentType)
	}
	var req *http.Request
	if c.Verb == "POST" {
		// a small valid request body in the request's codec
		var body []byte
		if c.ContentType == "" || c.ContentType == "application/json" {
			body = []byte(`{"fInt32":1}`)
		} else {
			body = []byte{0x18, 0x01}
		}
		if c.ReqGzip {
			// what the request's own body is encoded with says nothing about the response
			body = drive.Gzip(body)
			hdr.Set("Content-Encoding", "gzip")
		}
		req = drive.Request("POST", "/c4/"+c.Route, "", hdr, bytes.NewReader(body), int64(len(body)))
	} else {
		req = drive.Request("GET", "/c4/"+c.Route, "", hdr, nil, 0)
	}
	// earlier traffic on the same mux (Cached rounds): an unrelated request whose body and reply are larger
	// than anything the download handles - sent with the same Accept header but in the other codec, so that
	// nothing negotiated for it may stick to the Accept value -, then the same download, then the
	// unrelated request again
	unrelated := func() *evid.Violation {
		filler := strings.Repeat("scribble-", 8+(len(c.RawData)+len(c.Reply))/4)
		big := []byte(`{"fString":"` + filler + `"}`)
		h := http.Header{"Content-Type": {"application/json"}}
		if c.ContentType == "" || c.ContentType == "application/json" {
			bm := dynamicpb.NewMessage(md)
			bm.Set(md.Fields().ByName("f_string"), protoreflect.ValueOfString(filler))
			big, _ = proto.Marshal(bm)
			h.Set("Content-Type", "application/protobuf")
		}
		if c.Accept != nil {
			h["Accept"] = c.Accept
		}
		if r := drive.Serve(mux, drive.Request("POST", "/c4/plain", "", h, bytes.NewReader(big), int64(len(big)))); r.Panic != nil {
			v := evid.V("panic", r.PanicSig(), "panic: %v", r.Panic)
			return &v
		}
		return nil
	}
	for i := 0; i < c.Cached; i++ {
		if v := unrelated(); v != nil {
			return []evid.Violation{*v}, info{}
		}
		warm := req.Clone(req.Context())
		if c.Verb == "POST" {
			b, _ := io.ReadAll(req.Body)
			req.Body, warm.Body = io.NopCloser(bytes.NewReader(b)), io.NopCloser(bytes.NewReader(b))
		}
		if r := drive.Serve(mux, warm); r.Panic != nil {
			return []evid.Violation{evid.V("panic", r.PanicSig(), "panic: %v", r.Panic)}, info{}
		}
		if v := unrelated(); v != nil {
			return []evid.Violation{*v}, info{}
		}
	}
	res := drive.Serve(mux, req)
	if c.Cached > 0 && !bytes.Equal(asset.Data, c.RawData) {
		// (whatever is served from these bytes next is wrong by construction)
		return []evid.Violation{evid.V("reply", "handler-memory-overwritten", "the bytes of the HttpBody reply the handler keeps in its own memory were overwritten by serving requests (route %s, %d earlier rounds)", c.Route, c.Cached)}, info{status: res.Rec.Code}
	}
	acc := ref.ParseAccept(c.Accept)
	in := info{status: res.Rec.Code}
	for _, r := range acc.Ranges {
		if r.HasParams {
			in.contested = true
		}
	}
	if !acc.WellFormed || acc.MixedCase || acc.EmptyElems || acc.HasExt {
		in.contested = true
	}
	adm := acc.Admits(registered)
	in.adm = len(adm)
	if res.Panic != nil {
		return []evid.Violation{evid.V("panic", res.PanicSig(), "panic: %v (Accept %q)", res.Panic, c.Accept)}, in
	}
	var vs []evid.Violation
	if res.Rec.Code != 200 {
		return []evid.Violation{evid.V("status", fmt.Sprintf("status-%d", res.Rec.Code), "status %d body %q (route %s Accept %q Content-Type %q)", res.Rec.Code, res.Rec.Body.String(), c.Route, c.Accept, c.ContentType)}, in
	}
	ct := res.Hdr.Get("Content-Type")
	payload := res.Rec.Body.Bytes()
	// (d) Content-Encoding truthfulness
	switch ce := res.Hdr.Get("Content-Encoding"); ce {
	case "", "identity":
	case "gzip":
		zr, err := gzip.NewReader(bytes.NewReader(payload))
		if err != nil {
			return append(vs, evid.V("content-encoding", "", "Content-Encoding gzip but body is not gzip: %v", err)), in
		}
		zr.Multistream(false)
		dec, err := io.ReadAll(zr)
		if err != nil {
			return append(vs, evid.V("content-encoding", "", "gzip body does not inflate: %v", err)), in
		}
		payload = dec
		evid.Class("response-gzip")
	default:
		vs = append(vs, evid.V("content-encoding", "", "unknown Content-Encoding %q", ce))
	}
	// (c) HttpBody
	if c.Route == "raw" || c.Route == "rb-body" {
		if ct != c.RawType {
			vs = append(vs, evid.V("httpbody-content-type", "", "HttpBody content_type %q delivered as Content-Type %q", c.RawType, ct))
		}
		if !bytes.Equal(payload, c.RawData) {
			vs = append(vs, evid.V("httpbody-data", "", "HttpBody data %q delivered as %q", c.RawData, payload))
		}
		return vs, in
	}
	// (b) negotiated type
	reqCT := c.ContentType
	if reqCT == "" {
		reqCT = "application/json"
	}
	switch {
	case in.contested:
		if !isRegistered(ct) {
			vs = append(vs, evid.V("content-type", "unregistered-response-type", "response Content-Type %q is not a registered codec (Accept %q)", ct, c.Accept))
		}
	case len(adm) > 0:
		ok := false
		for _, a := range adm {
			ok = ok || a == ct
		}
		if !ok {
			vs = append(vs, evid.V("content-type", "not-admitted", "Accept %q admits %v but response Content-Type is %q", c.Accept, adm, ct))
		}
	default:
		if ct != reqCT {
			vs = append(vs, evid.V("content-type", "not-request-type", "Accept %q admits no registered codec; response Content-Type %q, want request type %q", c.Accept, ct, reqCT))
		}
	}
	// (a) decode with an independent decoder
	want := proto.Message(reply)
	sub := func(m protoreflect.Message, name string) protoreflect.Message {
		fd := m.Descriptor().Fields().ByName(protoreflect.Name(name))
		out := dynamicpb.NewMessage(fd.Message())
		if m.Has(fd) {
			proto.Merge(out, m.Get(fd).Message().Interface())
		}
		return out
	}
	switch c.Route {
	case "rb-nest":
		want = sub(reply, "nest").Interface()
	case "rb-leaf":
		want = sub(sub(reply, "nest"), "leaf").Interface()
	case "rb-ts", "wkt-ts":
		want = sub(reply, "ts").Interface()
	case "rb-dur", "wkt-dur":
		want = sub(reply, "dur").Interface()
	case "rb-mask":
		want = sub(reply, "mask").Interface()
	case "rb-wint":
		want = sub(reply, "w_int32").Interface()
	case "rb-wstr":
		want = sub(reply, "w_string").Interface()
	}
	got := dynamicpb.NewMessage(want.ProtoReflect().Descriptor())
	var derr error
	switch ct {
	case "application/json":
		derr = protojson.UnmarshalOptions{Resolver: w.Types}.Unmarshal(payload, got)
	case "application/protobuf", "application/octet-stream", customType:
		derr = proto.Unmarshal(payload, got)
	default:
		derr = fmt.Errorf("no decoder for %q", ct)
	}
	if derr != nil {
		vs = append(vs, evid.V("decode", "", "body does not decode as %q: %v (body %q)", ct, derr, trunc(payload)))
	} else if !proto.Equal(got, want) {
		vs = append(vs, evid.V("reply-differs", "", "route %s ct %s: decoded {%v} want {%v}", c.Route, ct, got, want))
	}
	return vs, in
}

func trunc(b []byte) []byte {
	if len(b) > 200 {
		return b[:200]
	}
	return b
}

var mediaPool = []string{"application/json", "application/protobuf", "application/octet-stream", "application/*", "*/*", "text/*", "text/html", "image/png",
	"application/xml", "application/x-protobuf", "application/json+x", "APPLICATION/JSON", "Application/Protobuf", "*/json",
	"application/json", "application/protobuf", "application/octet-stream", "application/*", "*/*", "text/html", "application/json", "application/protobuf"}
var qPool = []string{"", "", "", "", "", "", "", ";q=0.8", ";q=0.1", ";q=0", ";q=0.5", ";q=1", ";q=0.25", ";q=0", ";q=1", ";q=0.5", ";q=0.001", ";q=0.9", "; q=0.2", ";q=1.0", ";q=0.000", ";q=", ";q=2", ";q=abc", ";q=0.1234", ";charset=utf-8", ";charset=utf-8;q=0.3", ";q=0.3;ext=1", " ;q=0.7"}
var junkPool = []string{"", "garbage", ",,", ";", "application/", "/json", "google.api.HttpBody", "a/b/c", "\"quoted\"", "  ", "application/json application/protobuf", "q=0.5"}

func genAcceptLine(t *rapid.T) string {
	n := rapid.IntRange(0, 4).Draw(t, "nranges")
	var parts []string
	for i := 0; i < n; i++ {
		if rapid.IntRange(0, 24).Draw(t, "junk") == 0 {
			parts = append(parts, rapid.SampledFrom(junkPool).Draw(t, "junkv"))
			continue
		}
		media := rapid.SampledFrom(mediaPool).Draw(t, "media")
		if rapid.IntRange(0, 9).Draw(t, "customMedia") == 0 {
			media = customType // registered on some muxes (Case.Custom), unknown to the others
		}
		parts = append(parts, media+rapid.SampledFrom(qPool).Draw(t, "q"))
	}
	return strings.Join(parts, rapid.SampledFrom([]string{",", ", ", " , "}).Draw(t, "sep"))
}

func genCase(t *rapid.T) Case {
	c := Case{
		Route:       rapid.SampledFrom([]string{"plain", "plain", "plain", "plain", "rb-nest", "rb-leaf", "rb-body", "raw", "rb-nest", "rb-body", "raw", "rb-ts", "rb-dur", "rb-mask", "rb-wint", "rb-wstr", "wkt-ts", "wkt-dur"}).Draw(t, "route"),
		Verb:        rapid.SampledFrom([]string{"GET", "POST"}).Draw(t, "verb"),
		ContentType: rapid.SampledFrom([]string{"", "", "application/json", "application/protobuf", "application/octet-stream"}).Draw(t, "ct"),
	}
	if c.Route == "raw" {
		c.Verb = "GET"
	}
	if (c.Route == "raw" || c.Route == "rb-body") && c.Verb == "GET" && rapid.IntRange(0, 2).Draw(t, "oddCT") == 0 {
		// HttpBody replies travel raw under their own type, whatever type (registered or not) the request names
		c.ContentType = rapid.SampledFrom([]string{"image/jpeg", "text/plain", "application/x-unknown"}).Draw(t, "oddCTv")
	}
	c.Custom = rapid.IntRange(0, 3).Draw(t, "custom") == 0
	c.HeaderMode = rapid.SampledFrom([]string{"", "", "set", "send"}).Draw(t, "headerMode")
	if c.HeaderMode != "" && rapid.IntRange(0, 2).Draw(t, "forge") == 0 {
		c.ForgeType = rapid.SampledFrom([]string{"text/plain", "application/json", "application/protobuf", "application/octet-stream", "application/grpc"}).Draw(t, "forgeType")
	}
	c.Later = rapid.SampledFrom([]int{0, 0, 1, 2}).Draw(t, "later")
	c.ReqGzip = c.Verb == "POST" && rapid.IntRange(0, 3).Draw(t, "reqGzip") == 0
	c.Cached = rapid.SampledFrom([]int{0, 0, 0, 0, 1, 2}).Draw(t, "cached")
	nl := rapid.SampledFrom([]int{0, 1, 1, 1, 2, 3}).Draw(t, "nAcceptLines")
	for i := 0; i < nl; i++ {
		c.Accept = append(c.Accept, genAcceptLine(t))
	}
	if rapid.Bool().Draw(t, "hasAE") {
		c.AcceptEncoding = []string{rapid.SampledFrom([]string{"gzip", "identity", "*", "gzip;q=0", "gzip, deflate, br", "deflate", "gzip;q=0.5, identity;q=0.1", "junk;;", "application/json", "GZIP", ""}).Draw(t, "ae")}
	}
	prof := uni.Profile{}
	switch rapid.IntRange(0, 9).Draw(t, "size") {
	case 0:
		prof.FillProb = 1 // mostly empty
	case 1:
		prof.MaxBytes, prof.FillProb = 3000, 70
	case 2:
		prof.FillProb = 90
	}
	m := uni.GenMessage(t, uni.Base().MsgDesc("un.All"), prof)
	c.Reply, _ = proto.MarshalOptions{Deterministic: true}.Marshal(m)
	if c.Route == "raw" || c.Route == "rb-body" {
		c.RawType = rapid.SampledFrom([]string{"image/jpeg", "text/plain; charset=utf-8", "application/json", "application/x-custom+thing", "x", "", "google.api.HttpBody", "application/grpc"}).Draw(t, "rawType")
		if rapid.Bool().Draw(t, "rawTypeRandom") {
			c.RawType = rapid.StringMatching(`[a-z]{1,8}/[a-zA-Z0-9.+-]{1,12}(; ?[a-z]{1,5}=[a-zA-Z0-9-]{1,6})?`).Draw(t, "rawTypeR")
		}
		c.RawData = rapid.SliceOfN(rapid.Byte(), 0, 300).Draw(t, "rawData")
	}
	return c
}

func TestProp(t *testing.T) {
	rapid.Check(t, func(t *rapid.T) {
		c := genCase(t)
		vs, in := Check(c)
		acc := ref.ParseAccept(c.Accept)
		nranges := len(acc.Ranges)
		hasQ, hasWild := false, false
		for _, r := range acc.Ranges {
			hasQ = hasQ || r.Q != 1
			hasWild = hasWild || r.Sub == "*"
		}
		cl := []string{"route=" + c.Route, map[bool]string{true: "mux-with-a-custom-codec", false: "default-codecs"}[c.Custom], "reqct=" + c.ContentType, fmt.Sprintf("adm=%d", in.adm), "headers=" + c.HeaderMode + map[bool]string{true: "+content-type-metadata"}[c.ForgeType != ""]}
		if in.contested {
			cl = append(cl, "accept-contested")
		} else if c.Accept != nil {
			cl = append(cl, "accept-wellformed")
		} else {
			cl = append(cl, "accept-absent")
		}
		if c.ReqGzip {
			cl = append(cl, "request-body-gzip")
		}
		if c.Later > 0 {
			cl = append(cl, "later-registration-on-the-mux")
		}
		if c.Cached > 0 {
			cl = append(cl, "cached-reply-after-earlier-traffic")
		}
		nonEmpty := len(c.Reply) > 0 || len(c.RawData) > 0
		key := ""
		if nonEmpty && (nranges >= 2 || hasQ || hasWild || c.Route != "plain") {
			key = fmt.Sprintf("%s|%s|%s|%v|%d|%v|%v|%d|%s", c.Route, c.Verb, c.ContentType, in.contested, in.adm, hasQ, hasWild, nranges, c.HeaderMode+c.ForgeType)
			if c.ReqGzip {
				key += "|reqgzip"
			}
			if c.Route == "plain" || strings.HasPrefix(c.Route, "rb-") {
				key += "|" + strings.Join(c.Accept, "\n")
			}
		}
		evid.Eval(key, cl...)
		evid.Sample(c.Route, c)
		evid.Report(t, prop, c, vs)
	})
}

func TestReplay(t *testing.T) {
	path := os.Getenv("VERIF_REPLAY")
	if path == "" {
		t.Skip("VERIF_REPLAY not set")
	}
	var c Case
	if err := evid.LoadReplay(path, &c); err != nil {
		t.Fatal(err)
	}
	vs, _ := Check(c)
	evid.Report(t, prop, c, vs)
}

var _ = protoreflect.Name("")
