// Package dyn builds protobuf schemas, services and gRPC service descriptors
// at run time so that "for all rule sets / all schemas" becomes a generator
// parameter. Nothing here depends on larking.
package dyn

import (
	"context"
	"fmt"

	"google.golang.org/genproto/googleapis/api/annotations"
	_ "google.golang.org/genproto/googleapis/api/httpbody"
	"google.golang.org/grpc"
	"google.golang.org/protobuf/proto"
	"google.golang.org/protobuf/reflect/protodesc"
	"google.golang.org/protobuf/reflect/protoreflect"
	"google.golang.org/protobuf/reflect/protoregistry"
	"google.golang.org/protobuf/types/descriptorpb"
	"google.golang.org/protobuf/types/dynamicpb"
	_ "google.golang.org/protobuf/types/known/anypb"
	_ "google.golang.org/protobuf/types/known/durationpb"
	_ "google.golang.org/protobuf/types/known/emptypb"
	_ "google.golang.org/protobuf/types/known/fieldmaskpb"
	_ "google.golang.org/protobuf/types/known/structpb"
	_ "google.golang.org/protobuf/types/known/timestamppb"
	_ "google.golang.org/protobuf/types/known/wrapperspb"
)

type T = descriptorpb.FieldDescriptorProto_Type

const (
	Double   = descriptorpb.FieldDescriptorProto_TYPE_DOUBLE
	Float    = descriptorpb.FieldDescriptorProto_TYPE_FLOAT
	Int64    = descriptorpb.FieldDescriptorProto_TYPE_INT64
	Uint64   = descriptorpb.FieldDescriptorProto_TYPE_UINT64
	Int32    = descriptorpb.FieldDescriptorProto_TYPE_INT32
	Fixed64  = descriptorpb.FieldDescriptorProto_TYPE_FIXED64
	Fixed32  = descriptorpb.FieldDescriptorProto_TYPE_FIXED32
	Bool     = descriptorpb.FieldDescriptorProto_TYPE_BOOL
	String   = descriptorpb.FieldDescriptorProto_TYPE_STRING
	Message  = descriptorpb.FieldDescriptorProto_TYPE_MESSAGE
	Bytes    = descriptorpb.FieldDescriptorProto_TYPE_BYTES
	Uint32   = descriptorpb.FieldDescriptorProto_TYPE_UINT32
	Enum     = descriptorpb.FieldDescriptorProto_TYPE_ENUM
	Sfixed32 = descriptorpb.FieldDescriptorProto_TYPE_SFIXED32
	Sfixed64 = descriptorpb.FieldDescriptorProto_TYPE_SFIXED64
	Sint32   = descriptorpb.FieldDescriptorProto_TYPE_SINT32
	Sint64   = descriptorpb.FieldDescriptorProto_TYPE_SINT64
)

// FOpt modifies a field.
type FOpt func(*descriptorpb.FieldDescriptorProto)

// F declares a singular field.
func F(name string, num int32, typ T, opts ...FOpt) *descriptorpb.FieldDescriptorProto {
	f := &descriptorpb.FieldDescriptorProto{
		Name:   proto.String(name),
		Number: proto.Int32(num),
		Type:   typ.Enum(),
		Label:  descriptorpb.FieldDescriptorProto_LABEL_OPTIONAL.Enum(),
	}
	for _, o := range opts {
		o(f)
	}
	return f
}

// Rep makes the field repeated.
func Rep() FOpt {
	return func(f *descriptorpb.FieldDescriptorProto) {
		f.Label = descriptorpb.FieldDescriptorProto_LABEL_REPEATED.Enum()
	}
}

// Of sets the type name (".pkg.Msg") of a message or enum field.
func Of(typeName string) FOpt {
	return func(f *descriptorpb.FieldDescriptorProto) { f.TypeName = proto.String(typeName) }
}

// JSON sets an explicit json_name.
func JSON(name string) FOpt {
	return func(f *descriptorpb.FieldDescriptorProto) { f.JsonName = proto.String(name) }
}

// InOneof places the field in oneof index i.
func InOneof(i int32) FOpt {
	return func(f *descriptorpb.FieldDescriptorProto) { f.OneofIndex = proto.Int32(i) }
}

// Msg declares a message.
func Msg(name string, fields ...*descriptorpb.FieldDescriptorProto) *descriptorpb.DescriptorProto {
	return &descriptorpb.DescriptorProto{Name: proto.String(name), Field: fields}
}

// MapEntry declares the nested entry type of a map field and returns it; use
// with Rep()+Of(".pkg.Parent.NameEntry").
func MapEntry(name string, key, val *descriptorpb.FieldDescriptorProto) *descriptorpb.DescriptorProto {
	return &descriptorpb.DescriptorProto{
		Name:    proto.String(name),
		Field:   []*descriptorpb.FieldDescriptorProto{key, val},
		Options: &descriptorpb.MessageOptions{MapEntry: proto.Bool(true)},
	}
}

// EnumT declares an enum.
func EnumT(name string, vals ...string) *descriptorpb.EnumDescriptorProto {
	e := &descriptorpb.EnumDescriptorProto{Name: proto.String(name)}
	for i, v := range vals {
		e.Value = append(e.Value, &descriptorpb.EnumValueDescriptorProto{Name: proto.String(v), Number: proto.Int32(int32(i))})
	}
	return e
}

// MethodSpec declares one RPC.
type MethodSpec struct {
	Name         string
	In, Out      string // ".pkg.Msg"
	ClientStream bool
	ServerStream bool
	Rule         *annotations.HttpRule // optional google.api.http annotation
}

// Svc declares a service.
func Svc(name string, methods ...MethodSpec) *descriptorpb.ServiceDescriptorProto {
	s := &descriptorpb.ServiceDescriptorProto{Name: proto.String(name)}
	for _, m := range methods {
		md := &descriptorpb.MethodDescriptorProto{
			Name:       proto.String(m.Name),
			InputType:  proto.String(m.In),
			OutputType: proto.String(m.Out),
		}
		if m.ClientStream {
			md.ClientStreaming = proto.Bool(true)
		}
		if m.ServerStream {
			md.ServerStreaming = proto.Bool(true)
		}
		if m.Rule != nil {
			md.Options = &descriptorpb.MethodOptions{}
			proto.SetExtension(md.Options, annotations.E_Http, m.Rule)
		}
		s.Method = append(s.Method, md)
	}
	return s
}

// World is a compiled file in a private registry.
type World struct {
	Files *protoregistry.Files
	File  protoreflect.FileDescriptor
	Types *dynamicpb.Types
}

type fallback struct{ priv *protoregistry.Files }

func (f fallback) FindFileByPath(p string) (protoreflect.FileDescriptor, error) {
	if fd, err := f.priv.FindFileByPath(p); err == nil {
		return fd, nil
	}
	return protoregistry.GlobalFiles.FindFileByPath(p)
}
func (f fallback) FindDescriptorByName(n protoreflect.FullName) (protoreflect.Descriptor, error) {
	if d, err := f.priv.FindDescriptorByName(n); err == nil {
		return d, nil
	}
	return protoregistry.GlobalFiles.FindDescriptorByName(n)
}

// Resolver returns a protodesc.Resolver that looks into files first and the
// global registry second (for reflection servers over dynamic worlds).
func Resolver(files *protoregistry.Files) interface {
	FindFileByPath(string) (protoreflect.FileDescriptor, error)
	FindDescriptorByName(protoreflect.FullName) (protoreflect.Descriptor, error)
} {
	return fallback{files}
}

var stdDeps = []string{
	"google/api/annotations.proto",
	"google/api/httpbody.proto",
	"google/protobuf/any.proto",
	"google/protobuf/duration.proto",
	"google/protobuf/empty.proto",
	"google/protobuf/field_mask.proto",
	"google/protobuf/struct.proto",
	"google/protobuf/timestamp.proto",
	"google/protobuf/wrappers.proto",
}

// File assembles a proto3 file descriptor proto importing the standard
// dependencies.
func File(path, pkg string, msgs []*descriptorpb.DescriptorProto, enums []*descriptorpb.EnumDescriptorProto, svcs []*descriptorpb.ServiceDescriptorProto) *descriptorpb.FileDescriptorProto {
	return &descriptorpb.FileDescriptorProto{
		Name:        proto.String(path),
		Package:     proto.String(pkg),
		Syntax:      proto.String("proto3"),
		Dependency:  stdDeps,
		MessageType: msgs,
		EnumType:    enums,
		Service:     svcs,
	}
}

// NewWorld compiles fdp (plus optional extra files compiled before it).
func NewWorld(fdps ...*descriptorpb.FileDescriptorProto) (*World, error) {
	files := &protoregistry.Files{}
	var last protoreflect.FileDescriptor
	for _, fdp := range fdps {
		fd, err := protodesc.NewFile(fdp, fallback{files})
		if err != nil {
			return nil, err
		}
		if err := files.RegisterFile(fd); err != nil {
			return nil, err
		}
		last = fd
	}
	return &World{Files: files, File: last, Types: dynamicpb.NewTypes(files)}, nil
}

// MsgDesc returns the message descriptor by full name (without leading dot).
func (w *World) MsgDesc(full string) protoreflect.MessageDescriptor {
	d, err := w.Files.FindDescriptorByName(protoreflect.FullName(full))
	if err != nil {
		d, err = protoregistry.GlobalFiles.FindDescriptorByName(protoreflect.FullName(full))
		if err != nil {
			panic(fmt.Sprintf("dyn: no message %s", full))
		}
	}
	return d.(protoreflect.MessageDescriptor)
}

// New creates an empty dynamic message.
func (w *World) New(full string) *dynamicpb.Message { return dynamicpb.NewMessage(w.MsgDesc(full)) }

// UnaryFn handles a unary call.
type UnaryFn func(ctx context.Context, fullMethod string, req *dynamicpb.Message) (proto.Message, error)

// StreamFn handles a streaming call.
type StreamFn func(fullMethod string, in, out protoreflect.MessageDescriptor, ss grpc.ServerStream) error

// ServiceDesc builds a grpc.ServiceDesc for the named service ("pkg.Svc")
// whose methods all funnel into unary / stream. The generated-code protocol
// (decode, then interceptor or direct call) is reproduced exactly.
func (w *World) ServiceDesc(svcFull string, unary UnaryFn, stream StreamFn) *grpc.ServiceDesc {
	d, err := w.Files.FindDescriptorByName(protoreflect.FullName(svcFull))
	if err != nil {
		panic(err)
	}
	sd := d.(protoreflect.ServiceDescriptor)
	gsd := &grpc.ServiceDesc{
		ServiceName: svcFull,
		HandlerType: (*any)(nil),
		Metadata:    string(sd.ParentFile().Path()),
	}
	mds := sd.Methods()
	for i := 0; i < mds.Len(); i++ {
		md := mds.Get(i)
		full := "/" + svcFull + "/" + string(md.Name())
		in, out := md.Input(), md.Output()
		if md.IsStreamingClient() || md.IsStreamingServer() {
			gsd.Streams = append(gsd.Streams, grpc.StreamDesc{
				StreamName:    string(md.Name()),
				ClientStreams: md.IsStreamingClient(),
				ServerStreams: md.IsStreamingServer(),
				Handler: func(srv any, ss grpc.ServerStream) error {
					return stream(full, in, out, ss)
				},
			})
			continue
		}
		gsd.Methods = append(gsd.Methods, grpc.MethodDesc{
			MethodName: string(md.Name()),
			Handler: func(srv any, ctx context.Context, dec func(any) error, interceptor grpc.UnaryServerInterceptor) (any, error) {
				req := dynamicpb.NewMessage(in)
				if err := dec(req); err != nil {
					return nil, err
				}
				if interceptor == nil {
					return unary(ctx, full, req)
				}
				info := &grpc.UnaryServerInfo{Server: srv, FullMethod: full}
				h := func(ctx context.Context, r any) (any, error) {
					return unary(ctx, full, r.(*dynamicpb.Message))
				}
				return interceptor(ctx, req, info, h)
			},
		})
	}
	return gsd
}
