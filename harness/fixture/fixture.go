// Package fixture holds the shared multi-backend world used by C11, C12 and
// C13: five single-method services (A, B, C in their own proto files, D and E
// sharing one), three real reflection-enabled backends that serve overlapping
// subsets and tag their answers, and a local implementation.
package fixture

import (
	"context"
	"io"
	"net"
	"strings"
	"sync"
	"sync/atomic"

	"google.golang.org/genproto/googleapis/api/annotations"
	"google.golang.org/grpc"
	"google.golang.org/grpc/codes"
	"google.golang.org/grpc/credentials/insecure"
	"google.golang.org/grpc/reflection"
	rpb "google.golang.org/grpc/reflection/grpc_reflection_v1alpha"
	"google.golang.org/grpc/status"
	"google.golang.org/protobuf/proto"
	"google.golang.org/protobuf/reflect/protoreflect"
	"google.golang.org/protobuf/reflect/protoregistry"
	"google.golang.org/protobuf/types/descriptorpb"
	"google.golang.org/protobuf/types/dynamicpb"

	"verif/dyn"
	"verif/uni"
)

// Services are the service names (package "un").
var Services = []string{"SvcA", "SvcB", "SvcC", "SvcD", "SvcE", "SvcF", "SvcG"}

// Serves maps an owner to the services it serves ("B3alt" = B3 after its
// service set changed).
var Serves = map[string][]string{
	"B1": {"SvcA", "SvcB", "SvcD", "SvcS"},
	"B2": {"SvcA", "SvcE"},
	// SvcF and SvcG are declared in ONE proto file and served by one connection
	"B3":    {"SvcB", "SvcC", "SvcF", "SvcG"},
	"B3alt": {"SvcC", "SvcF", "SvcG"},
	"local": {"SvcA"},
}

// ExtraRoute is the prefix of the binding that only B2's (newer) build of SvcA.Ping declares.
const ExtraRoute = "/fx/svca/v2"

// Backend is one real gRPC server.
type Backend struct {
	Name  string
	Srv   *grpc.Server
	CC    *grpc.ClientConn
	Count atomic.Int64
	Alt   atomic.Bool // reflection lists the alternative service set
	Addr  string
}

type lister struct{ b *Backend }

func (l lister) GetServiceInfo() map[string]grpc.ServiceInfo {
	all := l.b.Srv.GetServiceInfo()
	name := l.b.Name
	if l.b.Alt.Load() {
		name += "alt"
	}
	out := map[string]grpc.ServiceInfo{}
	for _, s := range Serves[name] {
		if si, ok := all["un."+s]; ok {
			out["un."+s] = si
		}
	}
	return out
}

var (
	once     sync.Once
	World    *dyn.World
	World2   *dyn.World // the schema as backend B2 was built with (fields declared in reverse order)
	Backends map[string]*Backend
	Unknown  *grpc.ClientConn // a connection that is never registered
	LocalCnt atomic.Int64
)

// reordered returns a copy of f in which every message declares its fields in
// reverse order.
func reordered(f *descriptorpb.FileDescriptorProto) *descriptorpb.FileDescriptorProto {
	f = proto.Clone(f).(*descriptorpb.FileDescriptorProto)
	var walk func(ms []*descriptorpb.DescriptorProto)
	walk = func(ms []*descriptorpb.DescriptorProto) {
		for _, m := range ms {
			if !m.GetOptions().GetMapEntry() {
				for i, j := 0, len(m.Field)-1; i < j; i, j = i+1, j-1 {
					m.Field[i], m.Field[j] = m.Field[j], m.Field[i]
				}
			}
			walk(m.NestedType)
		}
	}
	walk(f.MessageType)
	return f
}

// TreeRule gives some services a third method, Tree, whose single binding shares
// route-tree nodes with the Tree bindings of OTHER services in every way a node
// can be shared: SvcB binds an interior node; below it hang a variable child
// (SvcC) and a literal child (SvcD); below those a literal under the variable
// (SvcE), a variable under the literal (SvcF) and a literal chain (SvcG). Dropping
// the owner of one of them must never take a neighbour's route away.
var TreeRule = map[string]string{
	"SvcB": "/fxt",
	"SvcC": "/fxt/{f_string}",
	"SvcD": "/fxt/lit",
	"SvcE": "/fxt/{f_string}/deep",
	"SvcF": "/fxt/lit/{f_string}",
	"SvcG": "/fxt/lit/deep/er",
}

// TreeProbe is a path that only the service's own Tree binding matches.
var TreeProbe = map[string]string{
	"SvcB": "/fxt",
	"SvcC": "/fxt/cval",
	"SvcD": "/fxt/lit",
	"SvcE": "/fxt/eval/deep",
	"SvcF": "/fxt/lit/fval",
	"SvcG": "/fxt/lit/deep/er",
}

func svcFile(path string, names ...string) *descriptorpb.FileDescriptorProto {
	var svcs []*descriptorpb.ServiceDescriptorProto
	for _, n := range names {
		svcs = append(svcs, dyn.Svc(n, dyn.MethodSpec{Name: "Ping", In: ".un.All", Out: ".un.All",
			Rule: &annotations.HttpRule{Pattern: &annotations.HttpRule_Get{Get: "/fx/" + strings.ToLower(n)},
				AdditionalBindings: []*annotations.HttpRule{{Pattern: &annotations.HttpRule_Get{Get: "/fx/" + strings.ToLower(n) + "/{f_bytes}"}}}}},
			// Solo has exactly one annotated binding: when its last owner is dropped the route
			// disappears (404), so "route found, no handler" (501) is never a consistent state
			dyn.MethodSpec{Name: "Solo", In: ".un.All", Out: ".un.All",
				Rule: &annotations.HttpRule{Pattern: &annotations.HttpRule_Get{Get: "/fxsolo/" + strings.ToLower(n)}}}))
	}
	for _, sv := range svcs {
		if tr, ok := TreeRule[sv.GetName()]; ok {
			sv.Method = append(sv.Method, dyn.Svc("x", dyn.MethodSpec{Name: "Tree", In: ".un.All", Out: ".un.All",
				Rule: &annotations.HttpRule{Pattern: &annotations.HttpRule_Get{Get: tr}}}).Method[0])
		}
	}
	f := dyn.File(path, "un", nil, nil, svcs)
	f.Dependency = append(f.Dependency, "un.proto")
	return f
}

// Ping returns a handler answering un.All{f_string: tag, f_bytes: request's f_bytes}.
func Ping(tag string, cnt *atomic.Int64) dyn.UnaryFn {
	return func(ctx context.Context, fm string, req *dynamicpb.Message) (proto.Message, error) {
		cnt.Add(1)
		m := dynamicpb.NewMessage(req.Descriptor())
		m.Set(req.Descriptor().Fields().ByName("f_string"), protoreflect.ValueOfString(tag))
		fb := req.Descriptor().Fields().ByName("f_bytes")
		if req.Has(fb) {
			m.Set(fb, req.Get(fb))
		}
		return m, nil
	}
}

// multiFile declares two three-method services: MultiOK (all rules valid) and
// MultiBad (the rule of the LAST method names an unknown field, so its
// registration fails after the first two methods were processed).
func multiFile() *descriptorpb.FileDescriptorProto {
	get := func(p string) *annotations.HttpRule {
		return &annotations.HttpRule{Pattern: &annotations.HttpRule_Get{Get: p}}
	}
	ms := func(svc string, last string) []dyn.MethodSpec {
		return []dyn.MethodSpec{
			{Name: "M1", In: ".un.All", Out: ".un.All", Rule: get("/fx/" + svc + "/m1")},
			{Name: "M2", In: ".un.All", Out: ".un.All", Rule: get("/fx/" + svc + "/m2/{f_string}")},
			{Name: "M3", In: ".un.All", Out: ".un.All", Rule: get(last)},
		}
	}
	f := dyn.File("multi.proto", "un", nil, nil, []*descriptorpb.ServiceDescriptorProto{
		dyn.Svc("MultiOK", ms("multiok", "/fx/multiok/m3")...),
		dyn.Svc("MultiBad", ms("multibad", "/fx/multibad/{nope}")...),
		// MultiBadS fails in its STREAMING method (registered after all unary ones): its two
		// valid unary methods must not become visible either
		dyn.Svc("MultiBadS",
			dyn.MethodSpec{Name: "M1", In: ".un.All", Out: ".un.All", Rule: get("/fx/multibads/m1")},
			dyn.MethodSpec{Name: "M2", In: ".un.All", Out: ".un.All", Rule: get("/fx/multibads/m2/{f_string}")},
			dyn.MethodSpec{Name: "S1", In: ".un.All", Out: ".un.All", ClientStream: true, ServerStream: true, Rule: get("/fx/multibads/{nope}")}),
	})
	f.Dependency = append(f.Dependency, "un.proto")
	return f
}

// MultiDesc returns the descriptor of MultiOK or MultiBad with tagged handlers.
func MultiDesc(name string, cnt *atomic.Int64) *grpc.ServiceDesc {
	return World.ServiceDesc("un."+name, Ping(name, cnt), chat)
}

// streamFile declares SvcS.Chat, a bidi echo served by B1 only. A message
// with f_int32 == 999 makes the backend fail (backend-fails-first faults).
func streamFile() *descriptorpb.FileDescriptorProto {
	f := dyn.File("svcs.proto", "un", nil, nil, []*descriptorpb.ServiceDescriptorProto{
		dyn.Svc("SvcS", dyn.MethodSpec{Name: "Chat", In: ".un.All", Out: ".un.All", ClientStream: true, ServerStream: true}),
	})
	f.Dependency = append(f.Dependency, "un.proto")
	return f
}

func chat(full string, in, out protoreflect.MessageDescriptor, ss grpc.ServerStream) error {
	for {
		m := dynamicpb.NewMessage(in)
		if err := ss.RecvMsg(m); err != nil {
			if err == io.EOF {
				return nil
			}
			return err
		}
		if m.Get(in.Fields().ByName("f_int32")).Int() == 999 {
			return status.Error(codes.Aborted, "backend fails first")
		}
		if err := ss.SendMsg(m); err != nil {
			return err
		}
	}
}

// LocalDesc returns the service descriptor of the local SvcA implementation.
func LocalDesc() *grpc.ServiceDesc {
	return World.ServiceDesc("un.SvcA", Ping("local", &LocalCnt), nil)
}

// Setup starts the backends once per process.
func Setup() {
	once.Do(func() {
		var err error
		files := func() []*descriptorpb.FileDescriptorProto {
			return []*descriptorpb.FileDescriptorProto{svcFile("svca.proto", "SvcA"), svcFile("svcb.proto", "SvcB"), svcFile("svcc.proto", "SvcC"), svcFile("svcde.proto", "SvcD", "SvcE"), svcFile("svcfg.proto", "SvcF", "SvcG"), multiFile(), streamFile()}
		}
		World, err = dyn.NewWorld(append([]*descriptorpb.FileDescriptorProto{uni.BaseFile()}, files()...)...)
		if err != nil {
			panic(err)
		}
		// B2 is "another build" of the same schema: identical field numbers and types, but the
		// messages declare their fields in the opposite order (legal, wire compatible).
		// ... and it is a newer version of svca.proto, in which SvcA.Ping gained one more binding
		// (ExtraRoute): a rule only this owner declares.
		files2 := files()
		for _, f := range files2 {
			if f.GetName() == "svca.proto" {
				rule := proto.GetExtension(f.Service[0].Method[0].Options, annotations.E_Http).(*annotations.HttpRule)
				rule.AdditionalBindings = append(rule.AdditionalBindings, &annotations.HttpRule{Pattern: &annotations.HttpRule_Get{Get: ExtraRoute + "/{f_bytes}"}})
			}
		}
		World2, err = dyn.NewWorld(append([]*descriptorpb.FileDescriptorProto{reordered(uni.BaseFile())}, files2...)...)
		if err != nil {
			panic(err)
		}
		Backends = map[string]*Backend{}
		for _, name := range []string{"B1", "B2", "B3"} {
			b := &Backend{Name: name}
			b.Srv = grpc.NewServer()
			World := World
			if name == "B2" {
				World = World2
			}
			reg := map[string]bool{}
			for _, key := range []string{name, name + "alt"} {
				for _, s := range Serves[key] {
					if !reg[s] {
						reg[s] = true
						b.Srv.RegisterService(World.ServiceDesc("un."+s, Ping(name, &b.Count), chat), nil)
					}
				}
			}
			rpb.RegisterServerReflectionServer(b.Srv, reflection.NewServer(reflection.ServerOptions{
				Services: lister{b}, DescriptorResolver: dyn.Resolver(World.Files), ExtensionResolver: protoregistry.GlobalTypes}))
			ln, err := net.Listen("tcp", "127.0.0.1:0")
			if err != nil {
				panic(err)
			}
			go b.Srv.Serve(ln)
			b.Addr = ln.Addr().String()
			b.CC, err = grpc.NewClient(b.Addr, grpc.WithTransportCredentials(insecure.NewCredentials()))
			if err != nil {
				panic(err)
			}
			Backends[name] = b
		}
		Unknown, _ = grpc.NewClient(Backends["B1"].Addr, grpc.WithTransportCredentials(insecure.NewCredentials()))
	})
}
