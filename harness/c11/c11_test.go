// C11 — dispatch follows the live registration set.
package c11

import (
	"bytes"
	"context"
	"fmt"
	"net/http"
	"os"
	"sort"
	"strconv"
	"strings"
	"testing"
	"time"

	"google.golang.org/protobuf/encoding/protojson"
	"google.golang.org/protobuf/proto"
	"google.golang.org/protobuf/types/dynamicpb"
	"larking.io/larking"
	"pgregory.net/rapid"

	"verif/drive"
	"verif/evid"
	"verif/fixture"
)

const prop = "C11"

func TestMain(m *testing.M) {
	code := m.Run()
	evid.Flush()
	os.Exit(code)
}

func setup() { fixture.Setup() }

var (
	services = fixture.Services
	serves   = fixture.Serves
)

// Op is one step of a history.
type Op struct {
	Kind   string `json:"kind"`   // register | drop | local | drop-unknown | alter
	Target string `json:"target"` // B1 B2 B3
}

func (o Op) String() string { return o.Kind + "(" + o.Target + ")" }

type Case struct {
	History []Op `json:"history"`
}

var alphabet = []Op{
	{"register", "B1"}, {"register", "B2"}, {"register", "B3"},
	{"drop", "B1"}, {"drop", "B2"}, {"drop", "B3"},
	{"local", ""}, {"drop-unknown", ""}, {"alter", "B3"},
}

type info struct {
	dropAfterRegister, twoOwners, reRegister, altered bool
}

func Check(c Case) ([]evid.Violation, info) {
	setup()
	var in info
	fail := func(step int, clause, sig, f string, a ...any) ([]evid.Violation, info) {
		var hs []string
		for _, o := range c.History[:step+1] {
			hs = append(hs, o.String())
		}
		return []evid.Violation{evid.V(clause, sig, "after %v: %s", hs, fmt.Sprintf(f, a...))}, in
	}
	fixture.Backends["B3"].Alt.Store(false)
	mux, err := larking.NewMux(larking.FilesOption(fixture.World.Files))
	if err != nil {
		panic(err)
	}
	// model: registered[owner] = set of services it owns in the mux
	registered := map[string][]string{}
	localN := 0
	dropped := map[string]int64{} // backend -> counter at drop time
	ctx, cancel := context.WithTimeout(context.Background(), 30*time.Second)
	defer cancel()
	for step, op := range c.History {
		var pnc any
		func() {
			defer func() { pnc = recover() }()
			switch op.Kind {
			case "register":
				b := fixture.Backends[op.Target]
				key := op.Target
				if b.Alt.Load() {
					key += "alt"
				}
				if _, was := registered[op.Target]; was {
					in.reRegister = true
				}
				if err := mux.RegisterConn(ctx, b.CC); err != nil {
					pnc = fmt.Sprintf("RegisterConn(%s) returned %v", op.Target, err)
					return
				}
				registered[op.Target] = serves[key]
				delete(dropped, op.Target)
			case "drop":
				b := fixture.Backends[op.Target]
				_, was := registered[op.Target]
				got := mux.DropConn(ctx, b.CC)
				if got != was {
					pnc = fmt.Sprintf("DropConn(%s) returned %v, registered=%v", op.Target, got, was)
					return
				}
				if was {
					in.dropAfterRegister = true
					delete(registered, op.Target)
					dropped[op.Target] = -1
				}
			case "local":
				if err := mux.VerifRegisterService(fixture.LocalDesc(), nil); err != nil {
					pnc = fmt.Sprintf("RegisterService(local SvcA) returned %v", err)
					return
				}
				localN++
				registered["local"] = serves["local"]
			case "drop-unknown":
				if mux.DropConn(ctx, fixture.Unknown) {
					pnc = "DropConn(unknown conn) returned true"
				}
			case "alter":
				fixture.Backends[op.Target].Alt.Store(!fixture.Backends[op.Target].Alt.Load())
				in.altered = true
			}
		}()
		if pnc != nil {
			return fail(step, "operation", "op-failed:"+op.Kind, "%v", pnc)
		}
		for b, v := range dropped {
			if v == -1 {
				dropped[b] = fixture.Backends[b].Count.Load()
			}
		}
		// model set per service
		owners := map[string]map[string]bool{}
		for o, svcs := range registered {
			for _, s := range svcs {
				if owners[s] == nil {
					owners[s] = map[string]bool{}
				}
				owners[s][o] = true
			}
		}
		for _, s := range services {
			if len(owners[s]) >= 2 {
				in.twoOwners = true
			}
			for probe := 0; probe < 20; probe++ {
				var res drive.Result
				kind := probe % 5
				if _, ok := fixture.TreeProbe[s]; kind == 4 && !ok {
					kind = 0
				}
				switch kind {
				case 4:
					// a binding whose route-tree nodes are shared with other services' bindings
					res = drive.Serve(mux, drive.Request("GET", fixture.TreeProbe[s], "", nil, nil, 0))
				case 0:
					res = drive.Serve(mux, drive.Request("GET", "/fx/"+strings.ToLower(s), "", nil, nil, 0))
				case 1:
					hdr := http.Header{}
					hdr.Set("Content-Type", "application/json")
					res = drive.Serve(mux, drive.Request("POST", "/un."+s+"/Ping", "", hdr, bytes.NewReader([]byte("{}")), 2))
				case 3:
					// a route with a path variable and a query parameter: the picked
					// handler must cope with parameters resolved for another owner
					// (the query also names a nested field, whose path runs through a message field)
					res = drive.Serve(mux, drive.Request("GET", "/fx/"+strings.ToLower(s)+"/QUJD", "f_int32=5&nest.sub_title=q&nest.leaf.count=2", nil, nil, 0))
				case 2:
					res = drive.Serve(mux, drive.GRPCRequest("/un."+s+"/Ping", nil, bytes.NewReader(drive.GRPCFrame(nil, false)), "application/grpc"))
				}
				if res.Panic != nil {
					return fail(step, "panic", res.PanicSig(), "probe %s kind %d panicked: %v", s, kind, res.Panic)
				}
				tag, unimpl := "", false
				if kind == 2 {
					st := res.Trailer.Get("Grpc-Status")
					if res.Rec.Code == http.StatusNotFound || st == "12" || st == "5" {
						unimpl = true
					} else if st == "0" {
						if fr, err := drive.ParseFrames(res.Rec.Body.Bytes()); err == nil && len(fr) == 1 {
							m := dynamicpb.NewMessage(fixture.World.MsgDesc("un.All"))
							if proto.Unmarshal(fr[0].Payload, m) == nil {
								tag = m.Get(m.Descriptor().Fields().ByName("f_string")).String()
							}
						}
					}
					if tag == "" && !unimpl {
						return fail(step, "probe", "grpc-probe-error", "gRPC probe of %s: HTTP %d grpc-status %q message %q", s, res.Rec.Code, st, res.Trailer.Get("Grpc-Message"))
					}
				} else {
					switch res.Rec.Code {
					case 200:
						m := dynamicpb.NewMessage(fixture.World.MsgDesc("un.All"))
						if err := protojson.Unmarshal(res.Rec.Body.Bytes(), m); err == nil {
							tag = m.Get(m.Descriptor().Fields().ByName("f_string")).String()
						}
					case 404, 501:
						unimpl = true
					default:
						return fail(step, "probe", "http-probe-error", "HTTP probe of %s kind %d: status %d %q", s, kind, res.Rec.Code, res.Rec.Body.String())
					}
				}
				set := owners[s]
				if kind == 4 && s == "SvcD" && len(set) == 0 {
					// "/fxt/lit" is also covered by SvcC's variable binding "/fxt/{f_string}":
					// without a live SvcD the less specific rule takes the request
					set = owners["SvcC"]
				}
				switch {
				case unimpl && len(set) > 0:
					return fail(step, "live-method-unimplemented", "live-method-unimplemented", "%s has live owners %v but probe kind %d answered unimplemented/not found (HTTP %d %q)", s, keys(set), kind, res.Rec.Code, strings.TrimSpace(res.Rec.Body.String()))
				case !unimpl && len(set) == 0:
					return fail(step, "dead-method-served", "dead-method-served", "%s has no live owner but %q answered", s, tag)
				case !unimpl && !set[tag]:
					return fail(step, "wrong-owner", "wrong-owner", "%s answered by %q, live owners %v", s, tag, keys(set))
				}
			}
		}
		// a binding that only B2's build of SvcA declares (a newer proto file): while B2 is registered the
		// rule is live and must route, to any live owner of SvcA; once B2 is gone the binding may stay or
		// go, but no dead backend answers it
		{
			res := drive.Serve(mux, drive.Request("GET", fixture.ExtraRoute+"/QUJD", "", nil, nil, 0))
			if res.Panic != nil {
				return fail(step, "panic", res.PanicSig(), "probe of the binding only B2 declares panicked: %v", res.Panic)
			}
			set := owners["SvcA"]
			switch res.Rec.Code {
			case 200:
				m := dynamicpb.NewMessage(fixture.World.MsgDesc("un.All"))
				tag := ""
				if err := protojson.Unmarshal(res.Rec.Body.Bytes(), m); err == nil {
					tag = m.Get(m.Descriptor().Fields().ByName("f_string")).String()
				}
				if !set[tag] {
					return fail(step, "wrong-owner", "wrong-owner", "the binding only B2 declares was answered by %q, live owners of SvcA %v", tag, keys(set))
				}
			case 404, 501:
				if set["B2"] {
					return fail(step, "live-rule-unbound", "live-rule-unbound", "B2 is registered and declares GET %s/{f_bytes} for SvcA.Ping, but the route answers %d %q (live owners of SvcA: %v)", fixture.ExtraRoute, res.Rec.Code, strings.TrimSpace(res.Rec.Body.String()), keys(set))
				}
			default:
				return fail(step, "probe", "http-probe-error", "probe of the binding only B2 declares: status %d %q", res.Rec.Code, res.Rec.Body.String())
			}
		}
		for b, at := range dropped {
			if now := fixture.Backends[b].Count.Load(); now != at {
				return fail(step, "dropped-conn-served", "dropped-conn-served", "dropped backend %s received %d more requests", b, now-at)
			}
		}
	}
	return nil, in
}

func keys(m map[string]bool) []string {
	var out []string
	for k := range m {
		out = append(out, k)
	}
	sort.Strings(out)
	return out
}

func abstract(c Case) string {
	var hs []string
	for _, o := range c.History {
		hs = append(hs, o.String())
	}
	return strings.Join(hs, ",")
}

func classes(in info) []string {
	var cl []string
	if in.dropAfterRegister {
		cl = append(cl, "drop-after-register")
	}
	if in.twoOwners {
		cl = append(cl, "two-owners")
	}
	if in.reRegister {
		cl = append(cl, "re-register")
	}
	if in.altered {
		cl = append(cl, "service-set-changed")
	}
	return cl
}

func TestProp(t *testing.T) {
	maxLen := 8
	if os.Getenv("VERIF_TIER") == "thorough" {
		maxLen = 20
	}
	rapid.Check(t, func(t *rapid.T) {
		n := rapid.IntRange(1, maxLen).Draw(t, "len")
		var c Case
		for i := 0; i < n; i++ {
			c.History = append(c.History, rapid.SampledFrom(alphabet).Draw(t, "op"))
		}
		vs, in := Check(c)
		key := ""
		if in.dropAfterRegister || in.twoOwners || in.reRegister {
			key = abstract(c)
		}
		evid.Eval(key, classes(in)...)
		evid.Sample("history", abstract(c))
		evid.Report(t, prop, c, vs)
	})
}

// TestPropExhaustive enumerates every history up to a length bound.
func TestPropExhaustive(t *testing.T) {
	bound := 2
	if os.Getenv("VERIF_TIER") == "thorough" {
		bound = 4
	}
	shard, _ := strconv.Atoi(os.Getenv("VERIF_SHARD"))
	nshard, _ := strconv.Atoi(os.Getenv("VERIF_NSHARD"))
	if nshard == 0 {
		nshard = 1
	}
	idx := 0
	var rec func(h []Op)
	rec = func(h []Op) {
		if len(h) > 0 {
			idx++
			if idx%nshard == shard {
				c := Case{History: append([]Op{}, h...)}
				vs, in := Check(c)
				key := "x|" + abstract(c)
				evid.Eval(key, append(classes(in), "exhaustive")...)
				if len(vs) > 0 {
					evid.Report(t, prop, c, vs)
				}
			}
		}
		if len(h) == bound {
			return
		}
		for _, o := range alphabet {
			rec(append(h, o))
		}
	}
	rec(nil)
	evid.SetExhaustive(fmt.Sprintf("all histories of length <= %d over the 9-operation alphabet", bound))
}

func TestReplay(t *testing.T) {
	path := os.Getenv("VERIF_REPLAY")
	if path == "" {
		t.Skip("VERIF_REPLAY not set")
	}
	var c Case
	if err := evid.LoadReplay(path, &c); err != nil {
		t.Fatal(err)
	}
	vs, _ := Check(c)
	evid.Report(t, prop, c, vs)
}
