// C11 — dispatch follows the live registration set.
package c11

import (
	"bytes"
	"context"
	"fmt"
	"net/http"
	"os"
	"sort"
	"strconv"
	"strings"
	"sync"
	"sync/atomic"
	"testing"
	"time"

	"google.golang.org/genproto/googleapis/api/annotations"
	"google.golang.org/grpc"
	"google.golang.org/grpc/credentials/insecure"
	"google.golang.org/grpc/reflection"
	rpb "google.golang.org/grpc/reflection/grpc_reflection_v1alpha"
	"google.golang.org/protobuf/encoding/protojson"
	"google.golang.org/protobuf/proto"
	"google.golang.org/protobuf/reflect/protoreflect"
	"google.golang.org/protobuf/reflect/protoregistry"
	"google.golang.org/protobuf/types/descriptorpb"
	"google.golang.org/protobuf/types/dynamicpb"
	"larking.io/larking"
	"pgregory.net/rapid"

	"net"

	"verif/drive"
	"verif/dyn"
	"verif/evid"
	"verif/uni"
)

const prop = "C11"

func TestMain(m *testing.M) {
	code := m.Run()
	evid.Flush()
	os.Exit(code)
}

// Services A,B,C live in their own proto files; D and E share one file.
var services = []string{"SvcA", "SvcB", "SvcC", "SvcD", "SvcE"}

// which services each owner serves
var serves = map[string][]string{
	"B1":    {"SvcA", "SvcB", "SvcD"},
	"B2":    {"SvcA", "SvcE"},
	"B3":    {"SvcB", "SvcC"},
	"B3alt": {"SvcC"}, // B3 after its service set changed
	"local": {"SvcA"},
}

type backend struct {
	name  string
	srv   *grpc.Server
	cc    *grpc.ClientConn
	count atomic.Int64
	alt   atomic.Bool // reflection lists the alternative service set
	addr  string
}

type lister struct{ b *backend }

func (l lister) GetServiceInfo() map[string]grpc.ServiceInfo {
	all := l.b.srv.GetServiceInfo()
	name := l.b.name
	if l.b.alt.Load() {
		name += "alt"
	}
	out := map[string]grpc.ServiceInfo{}
	for _, s := range serves[name] {
		if si, ok := all["un."+s]; ok {
			out["un."+s] = si
		}
	}
	return out
}

var (
	once     sync.Once
	world    *dyn.World
	backends map[string]*backend
	unknown  *grpc.ClientConn
	localCnt atomic.Int64
)

func svcFile(path string, names ...string) *descriptorpb.FileDescriptorProto {
	var svcs []*descriptorpb.ServiceDescriptorProto
	for _, n := range names {
		svcs = append(svcs, dyn.Svc(n, dyn.MethodSpec{Name: "Ping", In: ".un.All", Out: ".un.All",
			Rule: &annotations.HttpRule{Pattern: &annotations.HttpRule_Get{Get: "/c11/" + strings.ToLower(n)}}}))
	}
	f := dyn.File(path, "un", nil, nil, svcs)
	f.Dependency = append(f.Dependency, "un.proto")
	return f
}

func pingHandler(tag string, cnt *atomic.Int64) dyn.UnaryFn {
	return func(ctx context.Context, fm string, req *dynamicpb.Message) (proto.Message, error) {
		cnt.Add(1)
		m := dynamicpb.NewMessage(req.Descriptor())
		m.Set(req.Descriptor().Fields().ByName("f_string"), protoreflect.ValueOfString(tag))
		return m, nil
	}
}

func setup() {
	once.Do(func() {
		var err error
		world, err = dyn.NewWorld(uni.BaseFile(), svcFile("svca.proto", "SvcA"), svcFile("svcb.proto", "SvcB"), svcFile("svcc.proto", "SvcC"), svcFile("svcde.proto", "SvcD", "SvcE"))
		if err != nil {
			panic(err)
		}
		backends = map[string]*backend{}
		for _, name := range []string{"B1", "B2", "B3"} {
			b := &backend{name: name}
			b.srv = grpc.NewServer()
			reg := map[string]bool{}
			for _, key := range []string{name, name + "alt"} {
				for _, s := range serves[key] {
					if !reg[s] {
						reg[s] = true
						b.srv.RegisterService(world.ServiceDesc("un."+s, pingHandler(name, &b.count), nil), nil)
					}
				}
			}
			rpb.RegisterServerReflectionServer(b.srv, reflection.NewServer(reflection.ServerOptions{
				Services: lister{b}, DescriptorResolver: dyn.Resolver(world.Files), ExtensionResolver: protoregistry.GlobalTypes}))
			ln, err := net.Listen("tcp", "127.0.0.1:0")
			if err != nil {
				panic(err)
			}
			go b.srv.Serve(ln)
			b.addr = ln.Addr().String()
			b.cc, err = grpc.NewClient(b.addr, grpc.WithTransportCredentials(insecure.NewCredentials()))
			if err != nil {
				panic(err)
			}
			backends[name] = b
		}
		unknown, _ = grpc.NewClient(backends["B1"].addr, grpc.WithTransportCredentials(insecure.NewCredentials()))
	})
}

// Op is one step of a history.
type Op struct {
	Kind   string `json:"kind"`   // register | drop | local | drop-unknown | alter
	Target string `json:"target"` // B1 B2 B3
}

func (o Op) String() string { return o.Kind + "(" + o.Target + ")" }

type Case struct {
	History []Op `json:"history"`
}

var alphabet = []Op{
	{"register", "B1"}, {"register", "B2"}, {"register", "B3"},
	{"drop", "B1"}, {"drop", "B2"}, {"drop", "B3"},
	{"local", ""}, {"drop-unknown", ""}, {"alter", "B3"},
}

type info struct {
	dropAfterRegister, twoOwners, reRegister, altered bool
}

func Check(c Case) ([]evid.Violation, info) {
	setup()
	var in info
	fail := func(step int, clause, sig, f string, a ...any) ([]evid.Violation, info) {
		var hs []string
		for _, o := range c.History[:step+1] {
			hs = append(hs, o.String())
		}
		return []evid.Violation{evid.V(clause, sig, "after %v: %s", hs, fmt.Sprintf(f, a...))}, in
	}
	backends["B3"].alt.Store(false)
	mux, err := larking.NewMux(larking.FilesOption(world.Files))
	if err != nil {
		panic(err)
	}
	// model: registered[owner] = set of services it owns in the mux
	registered := map[string][]string{}
	localN := 0
	dropped := map[string]int64{} // backend -> counter at drop time
	ctx, cancel := context.WithTimeout(context.Background(), 30*time.Second)
	defer cancel()
	for step, op := range c.History {
		var pnc any
		func() {
			defer func() { pnc = recover() }()
			switch op.Kind {
			case "register":
				b := backends[op.Target]
				key := op.Target
				if b.alt.Load() {
					key += "alt"
				}
				if _, was := registered[op.Target]; was {
					in.reRegister = true
				}
				if err := mux.RegisterConn(ctx, b.cc); err != nil {
					pnc = fmt.Sprintf("RegisterConn(%s) returned %v", op.Target, err)
					return
				}
				registered[op.Target] = serves[key]
				delete(dropped, op.Target)
			case "drop":
				b := backends[op.Target]
				_, was := registered[op.Target]
				got := mux.DropConn(ctx, b.cc)
				if got != was {
					pnc = fmt.Sprintf("DropConn(%s) returned %v, registered=%v", op.Target, got, was)
					return
				}
				if was {
					in.dropAfterRegister = true
					delete(registered, op.Target)
					dropped[op.Target] = -1
				}
			case "local":
				if err := mux.VerifRegisterService(world.ServiceDesc("un.SvcA", pingHandler("local", &localCnt), nil), nil); err != nil {
					pnc = fmt.Sprintf("RegisterService(local SvcA) returned %v", err)
					return
				}
				localN++
				registered["local"] = serves["local"]
			case "drop-unknown":
				if mux.DropConn(ctx, unknown) {
					pnc = "DropConn(unknown conn) returned true"
				}
			case "alter":
				backends[op.Target].alt.Store(!backends[op.Target].alt.Load())
				in.altered = true
			}
		}()
		if pnc != nil {
			return fail(step, "operation", "op-failed:"+op.Kind, "%v", pnc)
		}
		for b, v := range dropped {
			if v == -1 {
				dropped[b] = backends[b].count.Load()
			}
		}
		// model set per service
		owners := map[string]map[string]bool{}
		for o, svcs := range registered {
			for _, s := range svcs {
				if owners[s] == nil {
					owners[s] = map[string]bool{}
				}
				owners[s][o] = true
			}
		}
		for _, s := range services {
			if len(owners[s]) >= 2 {
				in.twoOwners = true
			}
			for probe := 0; probe < 12; probe++ {
				var res drive.Result
				kind := probe % 3
				switch kind {
				case 0:
					res = drive.Serve(mux, drive.Request("GET", "/c11/"+strings.ToLower(s), "", nil, nil, 0))
				case 1:
					hdr := http.Header{}
					hdr.Set("Content-Type", "application/json")
					res = drive.Serve(mux, drive.Request("POST", "/un."+s+"/Ping", "", hdr, bytes.NewReader([]byte("{}")), 2))
				case 2:
					res = drive.Serve(mux, drive.GRPCRequest("/un."+s+"/Ping", nil, bytes.NewReader(drive.GRPCFrame(nil, false)), "application/grpc"))
				}
				if res.Panic != nil {
					return fail(step, "panic", res.PanicSig(), "probe %s kind %d panicked: %v", s, kind, res.Panic)
				}
				tag, unimpl := "", false
				if kind == 2 {
					st := res.Trailer.Get("Grpc-Status")
					if res.Rec.Code == http.StatusNotFound || st == "12" || st == "5" {
						unimpl = true
					} else if st == "0" {
						if fr, err := drive.ParseFrames(res.Rec.Body.Bytes()); err == nil && len(fr) == 1 {
							m := dynamicpb.NewMessage(world.MsgDesc("un.All"))
							if proto.Unmarshal(fr[0].Payload, m) == nil {
								tag = m.Get(m.Descriptor().Fields().ByName("f_string")).String()
							}
						}
					}
					if tag == "" && !unimpl {
						return fail(step, "probe", "grpc-probe-error", "gRPC probe of %s: HTTP %d grpc-status %q message %q", s, res.Rec.Code, st, res.Trailer.Get("Grpc-Message"))
					}
				} else {
					switch res.Rec.Code {
					case 200:
						m := dynamicpb.NewMessage(world.MsgDesc("un.All"))
						if err := protojson.Unmarshal(res.Rec.Body.Bytes(), m); err == nil {
							tag = m.Get(m.Descriptor().Fields().ByName("f_string")).String()
						}
					case 404, 501:
						unimpl = true
					default:
						return fail(step, "probe", "http-probe-error", "HTTP probe of %s kind %d: status %d %q", s, kind, res.Rec.Code, res.Rec.Body.String())
					}
				}
				set := owners[s]
				switch {
				case unimpl && len(set) > 0:
					return fail(step, "live-method-unimplemented", "live-method-unimplemented", "%s has live owners %v but probe kind %d answered unimplemented/not found (HTTP %d %q)", s, keys(set), kind, res.Rec.Code, strings.TrimSpace(res.Rec.Body.String()))
				case !unimpl && len(set) == 0:
					return fail(step, "dead-method-served", "dead-method-served", "%s has no live owner but %q answered", s, tag)
				case !unimpl && !set[tag]:
					return fail(step, "wrong-owner", "wrong-owner", "%s answered by %q, live owners %v", s, tag, keys(set))
				}
			}
		}
		for b, at := range dropped {
			if now := backends[b].count.Load(); now != at {
				return fail(step, "dropped-conn-served", "dropped-conn-served", "dropped backend %s received %d more requests", b, now-at)
			}
		}
	}
	return nil, in
}

func keys(m map[string]bool) []string {
	var out []string
	for k := range m {
		out = append(out, k)
	}
	sort.Strings(out)
	return out
}

func abstract(c Case) string {
	var hs []string
	for _, o := range c.History {
		hs = append(hs, o.String())
	}
	return strings.Join(hs, ",")
}

func classes(in info) []string {
	var cl []string
	if in.dropAfterRegister {
		cl = append(cl, "drop-after-register")
	}
	if in.twoOwners {
		cl = append(cl, "two-owners")
	}
	if in.reRegister {
		cl = append(cl, "re-register")
	}
	if in.altered {
		cl = append(cl, "service-set-changed")
	}
	return cl
}

func TestProp(t *testing.T) {
	maxLen := 8
	if os.Getenv("VERIF_TIER") == "thorough" {
		maxLen = 20
	}
	rapid.Check(t, func(t *rapid.T) {
		n := rapid.IntRange(1, maxLen).Draw(t, "len")
		var c Case
		for i := 0; i < n; i++ {
			c.History = append(c.History, rapid.SampledFrom(alphabet).Draw(t, "op"))
		}
		vs, in := Check(c)
		key := ""
		if in.dropAfterRegister || in.twoOwners || in.reRegister {
			key = abstract(c)
		}
		evid.Eval(key, classes(in)...)
		evid.Sample("history", abstract(c))
		evid.Report(t, prop, c, vs)
	})
}

// TestPropExhaustive enumerates every history up to a length bound.
func TestPropExhaustive(t *testing.T) {
	bound := 2
	if os.Getenv("VERIF_TIER") == "thorough" {
		bound = 4
	}
	shard, _ := strconv.Atoi(os.Getenv("VERIF_SHARD"))
	nshard, _ := strconv.Atoi(os.Getenv("VERIF_NSHARD"))
	if nshard == 0 {
		nshard = 1
	}
	idx := 0
	var rec func(h []Op)
	rec = func(h []Op) {
		if len(h) > 0 {
			idx++
			if idx%nshard == shard {
				c := Case{History: append([]Op{}, h...)}
				vs, in := Check(c)
				key := "x|" + abstract(c)
				evid.Eval(key, append(classes(in), "exhaustive")...)
				if len(vs) > 0 {
					evid.Report(t, prop, c, vs)
				}
			}
		}
		if len(h) == bound {
			return
		}
		for _, o := range alphabet {
			rec(append(h, o))
		}
	}
	rec(nil)
	evid.SetExhaustive(fmt.Sprintf("all histories of length <= %d over the 9-operation alphabet", bound))
}

func TestReplay(t *testing.T) {
	path := os.Getenv("VERIF_REPLAY")
	if path == "" {
		t.Skip("VERIF_REPLAY not set")
	}
	var c Case
	if err := evid.LoadReplay(path, &c); err != nil {
		t.Fatal(err)
	}
	vs, _ := Check(c)
	evid.Report(t, prop, c, vs)
}
