// C15 — gRPC deadlines and cancellation reach the handler.
package c15

import (
	"bufio"
	"bytes"
	"context"
	"encoding/base64"
	"fmt"
	"io"
	"math"
	"net"
	"net/http"
	"os"
	"strconv"
	"strings"
	"sync"
	"sync/atomic"
	"testing"
	"time"

	"google.golang.org/genproto/googleapis/api/annotations"
	"google.golang.org/grpc"
	"google.golang.org/grpc/codes"
	"google.golang.org/grpc/stats"
	"google.golang.org/grpc/status"
	"google.golang.org/protobuf/proto"
	"google.golang.org/protobuf/reflect/protoreflect"
	"google.golang.org/protobuf/types/dynamicpb"
	"larking.io/larking"
	"pgregory.net/rapid"

	"verif/drive"
	"verif/dyn"
	"verif/evid"
	"verif/uni"
)

const prop = "C15"

func TestMain(m *testing.M) {
	code := m.Run()
	evid.Flush()
	os.Exit(code)
}

var (
	worldOnce sync.Once
	world     *dyn.World
)

func theWorld() *dyn.World {
	worldOnce.Do(func() {
		post := func(p string) *annotations.HttpRule {
			return &annotations.HttpRule{Pattern: &annotations.HttpRule_Post{Post: p}, Body: "*"}
		}
		world = uni.WorldWith(dyn.Svc("C15",
			dyn.MethodSpec{Name: "Unary", In: ".un.All", Out: ".un.All", Rule: post("/c15/unary")},
			dyn.MethodSpec{Name: "Bidi", In: ".un.All", Out: ".un.All", ClientStream: true, ServerStream: true, Rule: post("/c15/bidi")},
			dyn.MethodSpec{Name: "ServerS", In: ".un.All", Out: ".un.All", ServerStream: true, Rule: post("/c15/server")},
			dyn.MethodSpec{Name: "ClientS", In: ".un.All", Out: ".un.All", ClientStream: true, Rule: post("/c15/client")},
			dyn.MethodSpec{Name: "Upload", In: ".un.UploadReq", Out: ".un.All", ClientStream: true,
				Rule: &annotations.HttpRule{Pattern: &annotations.HttpRule_Post{Post: "/c15/upload/{name}"}, Body: "file"}},
		))
	})
	return world
}

// ---------------------------------------------------------------------------
// (a) grpc-timeout decoding

type TCase struct {
	Header string `json:"header"`
	Opts   int    `json:"opts"` // bit 0: a stats handler is installed, bit 1: pass-through interceptors (neither may detach the handler's context)
}

type nopStats struct{}

func (nopStats) TagRPC(ctx context.Context, _ *stats.RPCTagInfo) context.Context { return ctx }
func (nopStats) HandleRPC(context.Context, stats.RPCStats)                       {}
func (nopStats) TagConn(ctx context.Context, _ *stats.ConnTagInfo) context.Context {
	return ctx
}
func (nopStats) HandleConn(context.Context, stats.ConnStats) {}

// muxOpts are the options under which deadlines and cancellation must still reach the handler.
func muxOpts(w *dyn.World, bits int) []larking.MuxOption {
	opts := []larking.MuxOption{larking.FilesOption(w.Files)}
	if bits&1 != 0 {
		opts = append(opts, larking.StatsOption(nopStats{}))
	}
	if bits&2 != 0 {
		opts = append(opts,
			larking.UnaryServerInterceptorOption(func(ctx context.Context, req any, info *grpc.UnaryServerInfo, h grpc.UnaryHandler) (any, error) {
				return h(ctx, req)
			}),
			larking.StreamServerInterceptorOption(func(srv any, ss grpc.ServerStream, info *grpc.StreamServerInfo, h grpc.StreamHandler) error {
				return h(srv, ss)
			}))
	}
	return opts
}

var units = map[byte]time.Duration{'H': time.Hour, 'M': time.Minute, 'S': time.Second, 'm': time.Millisecond, 'u': time.Microsecond, 'n': time.Nanosecond}

// classify: legal (value), malformed, or excluded (signs: unspecified).
func classify(h string) (legal bool, d time.Duration, overflow bool, excluded bool) {
	if h == "" {
		return false, 0, false, true // no header at all
	}
	if strings.ContainsAny(h, "+-") {
		return false, 0, false, true
	}
	if len(h) < 2 || len(h) > 9 {
		return false, 0, false, false
	}
	u, ok := units[h[len(h)-1]]
	if !ok {
		return false, 0, false, false
	}
	digits := h[:len(h)-1]
	for i := 0; i < len(digits); i++ {
		if digits[i] < '0' || digits[i] > '9' {
			return false, 0, false, false
		}
	}
	v, err := strconv.ParseInt(digits, 10, 64)
	if err != nil {
		return false, 0, false, false
	}
	if v > math.MaxInt64/int64(u) {
		return true, 0, true, false
	}
	return true, time.Duration(v) * u, false, false
}

func CheckTimeout(c TCase) []evid.Violation {
	fail := func(clause, s, f string, a ...any) []evid.Violation {
		return []evid.Violation{evid.V(clause, "timeout:"+s, f, a...)}
	}
	w := theWorld()
	mux, err := larking.NewMux(muxOpts(w, c.Opts)...)
	if err != nil {
		panic(err)
	}
	var ran bool
	var deadline time.Time
	var hasDeadline bool
	stream := func(full string, in, out protoreflect.MessageDescriptor, ss grpc.ServerStream) error {
		ran = true
		deadline, hasDeadline = ss.Context().Deadline()
		return nil
	}
	if err := mux.VerifRegisterService(w.ServiceDesc("un.C15", nil, stream), nil); err != nil {
		panic(err)
	}
	hdr := http.Header{}
	hdr["Grpc-Timeout"] = []string{c.Header}
	before := time.Now()
	res := drive.Serve(mux, drive.GRPCRequest("/un.C15/Bidi", hdr, bytes.NewReader(nil), "application/grpc"))
	after := time.Now()
	if res.Panic != nil {
		return fail("panic", res.PanicSig(), "grpc-timeout %q: panic %v", c.Header, res.Panic)
	}
	legal, d, overflow, excluded := classify(c.Header)
	if excluded {
		return nil
	}
	if !legal {
		if ran {
			return fail("malformed-accepted", "malformed-accepted:"+shape(c.Header), "malformed grpc-timeout %q: handler ran (deadline %v set=%v)", c.Header, deadline.Sub(before), hasDeadline)
		}
		st := res.Trailer.Get("Grpc-Status")
		if res.Rec.Code == 200 && (st == "0" || st == "") && res.Hdr.Get("Grpc-Status") == "" {
			return fail("malformed-accepted", "malformed-no-error", "malformed grpc-timeout %q: no error reported (status %d)", c.Header, res.Rec.Code)
		}
		return nil
	}
	if !ran {
		return fail("legal-refused", "legal-refused:"+shape(c.Header), "legal grpc-timeout %q refused: status %d %q", c.Header, res.Rec.Code, res.Rec.Body.String())
	}
	if !hasDeadline {
		return fail("no-deadline", "no-deadline", "grpc-timeout %q: handler context has no deadline", c.Header)
	}
	if overflow {
		if deadline.Sub(before) < time.Duration(1<<62) {
			return fail("deadline", "overflow-deadline", "grpc-timeout %q overflows: deadline only %v away", c.Header, deadline.Sub(before))
		}
		return nil
	}
	lo, hi := before.Add(d), after.Add(d)
	if deadline.Before(lo) || deadline.After(hi) {
		return fail("deadline", "wrong-deadline:unit-"+c.Header[len(c.Header)-1:], "grpc-timeout %q = %v: deadline is %v after receipt (allowed %v .. %v)", c.Header, d, deadline.Sub(before), lo.Sub(before), hi.Sub(before))
	}
	return nil
}

func shape(h string) string {
	var sb strings.Builder
	for _, r := range h {
		switch {
		case r >= '0' && r <= '9':
			sb.WriteByte('d')
		case r < 128 && units[byte(r)] != 0:
			sb.WriteByte('U')
		case r == ' ':
			sb.WriteByte('_')
		default:
			sb.WriteByte('x')
		}
	}
	s := sb.String()
	for strings.Contains(s, "dd") {
		s = strings.ReplaceAll(s, "dd", "d")
	}
	return fmt.Sprintf("%s(len%d)", s, len(h))
}

var digitPool = []string{"0", "1", "00000001", "99999999", "10", "100", "1000", "10000", "100000", "1000000", "10000000", "5", "42", "007", "2562047", "2562048", "99999", "153722867", "15372286"}

func genTimeout(t *rapid.T) string {
	switch rapid.IntRange(0, 9).Draw(t, "kind") {
	case 0, 1, 2, 3: // legal, boundary-biased
		return rapid.SampledFrom(digitPool).Filter(func(s string) bool { return len(s) <= 8 }).Draw(t, "digits") + string(rapid.SampledFrom([]byte("HMSmun")).Draw(t, "unit"))
	case 4, 5: // legal random
		n := rapid.IntRange(1, 8).Draw(t, "len")
		return rapid.StringMatching(fmt.Sprintf("[0-9]{%d}", n)).Draw(t, "d") + string(rapid.SampledFrom([]byte("HMSmun")).Draw(t, "unit"))
	default: // malformed shapes
		return rapid.SampledFrom([]string{
			"S", "H", "5", "12345", "123456789S", "1234567890m", "5s", "5h", "5U", "5N", "5x", "5 S", " 5S", "5S ", "5.0S", "5e3m", "1_0S", "٣S", "5Ｓ", "SS", "5SS", "S5", "0x5S", "5µ", "5us", "5ms", "10min", "", "n", "999999999n",
		}).Draw(t, "bad")
	}
}

func TestPropTimeout(t *testing.T) {
	rapid.Check(t, func(t *rapid.T) {
		c := TCase{Header: genTimeout(t), Opts: rapid.SampledFrom([]int{0, 0, 1, 2, 3}).Draw(t, "opts")}
		vs := CheckTimeout(c)
		legal, _, overflow, excluded := classify(c.Header)
		cl := []string{"timeout"}
		switch {
		case excluded:
			cl = append(cl, "excluded")
		case legal && overflow:
			cl = append(cl, "legal-overflow")
		case legal:
			cl = append(cl, "legal")
		default:
			cl = append(cl, "malformed")
		}
		key := ""
		if !excluded {
			key = fmt.Sprintf("t|%s|%v", shape(c.Header), legal)
			if legal {
				key += "|" + c.Header
			}
		}
		evid.Eval(key, cl...)
		evid.Sample("timeout", c)
		evid.Report(t, prop, map[string]any{"kind": "timeout", "timeout": c}, vs)
	})
}

// TestPropTimeoutEnum enumerates (length, unit) x boundary digit strings.
func TestPropTimeoutEnum(t *testing.T) {
	n := 0
	for length := 1; length <= 8; length++ {
		for _, u := range []byte("HMSmun") {
			cands := map[string]bool{
				strings.Repeat("0", length):         true,
				strings.Repeat("9", length):         true,
				strings.Repeat("0", length-1) + "1": true,
				"1" + strings.Repeat("0", length-1): true,
				("2562047" + "00000000")[:length]:   true,
				("2562048" + "00000000")[:length]:   true,
				("15372286" + "0")[:length]:         true,
				("12345678")[:length]:               true,
			}
			for d := range cands {
				c := TCase{Header: d + string(u)}
				vs := CheckTimeout(c)
				n++
				evid.Eval("enum|"+c.Header, "timeout-enumerated")
				if len(vs) > 0 {
					evid.Report(t, prop, map[string]any{"kind": "timeout", "timeout": c}, vs)
				}
			}
		}
	}
	evid.SetExhaustive("grpc-timeout: all (length 1..8, unit) pairs x 8 boundary digit strings")
	t.Logf("enumerated %d timeout strings", n)
}

// ---------------------------------------------------------------------------
// (b) cancellation over real connections

type CCase struct {
	Transport string `json:"transport"`  // grpc | http1 | grpcweb1
	Point     string `json:"point"`      // recv-blocked | send-blocked | between | before-first
	Mechanism string `json:"mechanism"`  // cancel | close
	MsgsFirst int    `json:"msgs_first"` // messages exchanged before the cancel point
	Opts      int    `json:"opts"`       // as TCase.Opts
	PathSlash bool   `json:"path_slash"` // plain HTTP: the request path carries a trailing '/' (the mux normalises it before routing)
}

type hstate struct {
	blocked   chan string // handler announces what it is about to block in
	released  chan error  // error returned by the blocked call
	ctxDone   chan struct{}
	exited    chan struct{}
	sendCount atomic.Int64
}

func cancelMux(c CCase, hs *hstate) *larking.Mux {
	w := theWorld()
	mux, err := larking.NewMux(muxOpts(w, c.Opts)...)
	if err != nil {
		panic(err)
	}
	big := dynamicpb.NewMessage(w.MsgDesc("un.All"))
	big.Set(big.Descriptor().Fields().ByName("f_string"), protoreflect.ValueOfString(strings.Repeat("x", 256<<10)))
	small := dynamicpb.NewMessage(w.MsgDesc("un.All"))
	stream := func(full string, in, out protoreflect.MessageDescriptor, ss grpc.ServerStream) error {
		defer close(hs.exited)
		ctx := ss.Context()
		go func() {
			<-ctx.Done()
			close(hs.ctxDone)
		}()
		recv := func() error { return ss.RecvMsg(dynamicpb.NewMessage(in)) }
		if strings.HasSuffix(full, "/Upload") {
			announced := false
			for {
				// announce once; a partial compressed stream yields an unknown number of chunks
				if !announced {
					announced = true
					hs.blocked <- "recv"
				}
				if err := recv(); err != nil {
					hs.released <- err
					return err
				}
			}
		}
		switch c.Point {
		case "recv-blocked", "before-first":
			n := c.MsgsFirst
			if c.Point == "before-first" || strings.HasSuffix(full, "/ServerS") {
				n = 0
			}
			for i := 0; i < n; i++ {
				if err := recv(); err != nil {
					hs.released <- err
					return err
				}
				if !strings.HasSuffix(full, "/ClientS") {
					if err := ss.SendMsg(small); err != nil {
						hs.released <- err
						return err
					}
				}
			}
			hs.blocked <- "recv"
			err := recv()
			if err == nil && c.Point == "before-first" {
				err = recv()
			}
			hs.released <- err
			return err
		case "send-blocked":
			if err := recv(); err != nil {
				hs.released <- err
				return err
			}
			hs.blocked <- "send"
			for i := 0; i < 100000; i++ {
				if err := ss.SendMsg(big); err != nil {
					hs.released <- err
					return err
				}
				hs.sendCount.Add(1)
			}
			hs.released <- nil
			return nil
		case "between":
			if err := recv(); err != nil {
				hs.released <- err
				return err
			}
			for i := 0; i < c.MsgsFirst; i++ {
				if err := ss.SendMsg(small); err != nil {
					hs.released <- err
					return err
				}
			}
			hs.blocked <- "idle"
			// not blocked in larking: wait for the context, then try the stream
			select {
			case <-ctx.Done():
			case <-time.After(12 * time.Second):
			}
			err := ss.SendMsg(small)
			if err == nil {
				err = recv()
			}
			hs.released <- err
			return err
		}
		return nil
	}
	// the unary method: the handler holds the call without touching the response (a slow computation)
	unary := func(ctx context.Context, fm string, req *dynamicpb.Message) (proto.Message, error) {
		defer close(hs.exited)
		go func() {
			<-ctx.Done()
			close(hs.ctxDone)
		}()
		hs.blocked <- "idle"
		select {
		case <-ctx.Done():
		case <-time.After(12 * time.Second):
		}
		hs.released <- ctx.Err()
		if ctx.Err() == nil {
			return nil, status.Error(codes.Aborted, "the call was never cancelled")
		}
		return nil, status.FromContextError(ctx.Err()).Err()
	}
	if err := mux.VerifRegisterService(w.ServiceDesc("un.C15", unary, stream), nil); err != nil {
		panic(err)
	}
	return mux
}

const bound = 10 * time.Second

func CheckCancel(c CCase) (vs []evid.Violation, verified bool) {
	fail := func(clause, s, f string, a ...any) ([]evid.Violation, bool) {
		return []evid.Violation{evid.V(clause, "cancel:"+c.Transport+":"+c.Point+":"+s, f, a...)}, verified
	}
	hs := &hstate{blocked: make(chan string, 1), released: make(chan error, 4), ctxDone: make(chan struct{}), exited: make(chan struct{})}
	mux := cancelMux(c, hs)
	real := drive.Real()
	real.Use(mux)
	w := theWorld()
	msg := dynamicpb.NewMessage(w.MsgDesc("un.All"))
	var doCancel func()
	method, path := "/un.C15/Bidi", "/c15/bidi"
	if c.Point == "send-blocked" || c.Point == "between" {
		method, path = "/un.C15/ServerS", "/c15/server"
	}
	switch c.Transport {
	case "grpc":
		ctx, cancel := context.WithCancel(context.Background())
		defer cancel()
		cs, err := real.CC.NewStream(ctx, &grpc.StreamDesc{ServerStreams: true, ClientStreams: true}, method)
		if err != nil {
			return fail("setup", "dial", "NewStream: %v", err)
		}
		n := c.MsgsFirst
		if c.Point == "before-first" {
			n = 0
		}
		if c.Point == "send-blocked" || c.Point == "between" {
			n = 1
		}
		for i := 0; i < n; i++ {
			if err := cs.SendMsg(msg); err != nil {
				return fail("setup", "client-send", "client send: %v", err)
			}
			if c.Point == "recv-blocked" {
				if err := cs.RecvMsg(dynamicpb.NewMessage(w.MsgDesc("un.All"))); err != nil {
					return fail("setup", "client-recv", "client recv: %v", err)
				}
			}
		}
		if c.Point == "between" {
			for i := 0; i < c.MsgsFirst; i++ {
				if err := cs.RecvMsg(dynamicpb.NewMessage(w.MsgDesc("un.All"))); err != nil {
					return fail("setup", "client-recv", "client recv: %v", err)
				}
			}
		}
		doCancel = cancel
	case "http1gz":
		conn, err := net.Dial("tcp", real.Addr)
		if err != nil {
			return fail("setup", "dial", "dial: %v", err)
		}
		defer conn.Close()
		raw := make([]byte, 24<<10)
		x := uint32(c.MsgsFirst*7919 + 1)
		for i := range raw {
			x = x*1664525 + 1013904223
			raw[i] = byte(x>>24) & 0x3f
		}
		gz := drive.Gzip(raw)
		fmt.Fprintf(conn, "POST /c15/upload/f1 HTTP/1.1\r\nHost: x\r\nContent-Type: application/x-bin\r\nContent-Encoding: gzip\r\nTransfer-Encoding: chunked\r\n\r\n")
		half := gz[:len(gz)*c.MsgsFirst/4]
		fmt.Fprintf(conn, "%x\r\n%s\r\n", len(half), half)
		doCancel = func() { conn.Close() }
	case "http1", "http1gzlate", "grpcweb1", "grpcwebtext1":
		conn, err := net.Dial("tcp", real.Addr)
		if err != nil {
			return fail("setup", "dial", "dial: %v", err)
		}
		defer conn.Close()
		var ct string
		var one []byte
		if c.Transport == "http1" || c.Transport == "http1gzlate" {
			ct = "application/json"
			one = []byte("{}")
			if c.Transport == "http1gzlate" {
				// a compressed body of unknown length whose terminating chunk arrives in a later segment than
				// its last data chunk (a client streaming a compressed body): the server must still have read
				// the body to its end, or net/http never watches the connection for the disconnect
				ct += "\r\nContent-Encoding: gzip"
				one = drive.Gzip(one)
			}
			// HTTP/1.1 is not full duplex: a handler that replies before the
			// request body ended blocks in the reply, so Recv cases use the
			// client-streaming method (no reply before the blocking Recv).
			if c.Point == "recv-blocked" || c.Point == "before-first" {
				path = "/c15/client"
			}
		} else {
			ct = "application/grpc-web+proto"
			one = drive.GRPCFrame(nil, false)
			if c.Transport == "grpcwebtext1" {
				// the base64 framing; a 9-byte frame so that every chunk is a whole number of base64 quanta
				ct = "application/grpc-web-text+proto"
				one = []byte(base64.StdEncoding.EncodeToString(drive.GRPCFrame([]byte{0x18, 0x01, 0x18, 0x01}, false)))
			}
			path = method
			if c.Point == "recv-blocked" || c.Point == "before-first" {
				path = "/un.C15/ClientS"
			}
		}
		if c.Point == "unary-idle" {
			path = "/c15/unary"
		}
		if c.PathSlash && (c.Transport == "http1" || c.Transport == "http1gzlate") {
			path += "/"
		}
		fmt.Fprintf(conn, "POST %s HTTP/1.1\r\nHost: x\r\nContent-Type: %s\r\nTransfer-Encoding: chunked\r\n\r\n", path, ct)
		writeChunk := func(b []byte) { fmt.Fprintf(conn, "%x\r\n%s\r\n", len(b), b) }
		n := c.MsgsFirst
		if c.Point == "before-first" {
			n = 0
		}
		if c.Point == "send-blocked" || c.Point == "between" || c.Point == "unary-idle" {
			n = 1
		}
		for i := 0; i < n; i++ {
			writeChunk(one)
		}
		if c.Point == "send-blocked" || c.Point == "between" || c.Point == "unary-idle" {
			if c.Transport == "http1gzlate" {
				time.Sleep(60 * time.Millisecond)
			}
			fmt.Fprintf(conn, "0\r\n\r\n") // request complete, the server streams
			if c.Point == "between" {
				// read the response head so that the handler has really sent
				br := bufio.NewReader(conn)
				conn.SetReadDeadline(time.Now().Add(bound))
				if _, err := br.ReadString('\n'); err != nil {
					return fail("setup", "client-read", "reading response: %v", err)
				}
			}
		}
		doCancel = func() { conn.Close() }
	}
	// wait until the handler announces the blocking point
	var what string
	select {
	case what = <-hs.blocked:
	case err := <-hs.released:
		return fail("setup", "handler-early-exit", "handler finished before the cancel point: %v", err)
	case <-time.After(bound):
		return fail("setup", "handler-never-blocked", "handler did not reach the cancel point within %v", bound)
	}
	if what == "send" {
		// wait until the sender has stalled against the non-reading client
		last := int64(-1)
		for i := 0; i < 100; i++ {
			time.Sleep(30 * time.Millisecond)
			cur := hs.sendCount.Load()
			if cur == last && cur > 0 {
				break
			}
			last = cur
		}
	} else {
		time.Sleep(20 * time.Millisecond) // let the handler enter the blocking call
	}
	verified = true
	t0 := time.Now()
	doCancel()
	select {
	case err := <-hs.released:
		if c.Point == "between" || c.Point == "unary-idle" {
			break // the handler was idle: only the context cancellation is asserted
		}
		if err == nil || err == io.EOF && c.Point != "recv-blocked" && c.Point != "before-first" {
			return fail("released-without-error", "no-error", "after %s the handler's blocked %s returned %v", c.Mechanism, what, err)
		}
		if err == io.EOF {
			// a half-closed request body is a clean end only if the client really ended it; a
			// disconnect in the middle of a chunked body must not look like a clean end
			return fail("released-without-error", "disconnect-reported-as-eof", "client %s while the handler was blocked in Recv: RecvMsg returned io.EOF", c.Mechanism)
		}
	case <-time.After(bound):
		return fail("not-released", "blocked-"+what, "handler still blocked in %s %v after the client's %s", what, bound, c.Mechanism)
	}
	select {
	case <-hs.ctxDone:
	case <-time.After(bound):
		return fail("ctx-not-cancelled", "ctx-not-cancelled", "handler context not cancelled %v after the client's %s (blocked call was released after %v)", bound, c.Mechanism, time.Since(t0))
	}
	select {
	case <-hs.exited:
	case <-time.After(bound):
		return fail("handler-leak", "handler-leak", "handler goroutine did not end")
	}
	return nil, verified
}

func TestPropCancel(t *testing.T) {
	rapid.Check(t, func(t *rapid.T) {
		c := CCase{
			Transport: rapid.SampledFrom([]string{"grpc", "grpc", "http1", "grpcweb1", "grpcwebtext1", "http1gz", "http1gzlate"}).Draw(t, "transport"),
			Point:     rapid.SampledFrom([]string{"recv-blocked", "send-blocked", "between", "before-first"}).Draw(t, "point"),
			MsgsFirst: rapid.IntRange(1, 3).Draw(t, "msgsFirst"),
		}
		c.Mechanism = "close"
		c.Opts = rapid.SampledFrom([]int{0, 0, 1, 2, 3}).Draw(t, "opts")
		c.PathSlash = c.Transport == "http1" && rapid.Bool().Draw(t, "pathSlash")
		if c.Transport == "http1gzlate" || c.Transport == "http1" && rapid.IntRange(0, 3).Draw(t, "unaryIdle") == 0 {
			// a complete (for http1gzlate: compressed) request to the unary method, whose handler holds the
			// call without touching the response
			c.Point = "unary-idle"
		}
		if c.Transport == "http1gz" {
			c.Point = "recv-blocked" // gzip-encoded HttpBody upload cut in the middle of the compressed stream
		}
		if c.Transport == "grpc" {
			c.Mechanism = "cancel"
		}
		var vs []evid.Violation
		var verified bool
		// bounded-liveness oracle: a miss must repeat three times to count
		for attempt := 0; attempt < 3; attempt++ {
			vs, verified = CheckCancel(c)
			if len(vs) == 0 {
				break
			}
		}
		key := ""
		if verified {
			key = fmt.Sprintf("c|%s|%s|%s|%d|%v|%d", c.Transport, c.Point, c.Mechanism, c.MsgsFirst, c.PathSlash, c.Opts)
		}
		evid.Eval(key, "cancel", "transport="+c.Transport, "point="+c.Point)
		evid.Sample("cancel", c)
		evid.Report(t, prop, map[string]any{"kind": "cancel", "cancel": c}, vs)
	})
}

// ---------------------------------------------------------------------------

type replay struct {
	Kind    string `json:"kind"`
	Timeout TCase  `json:"timeout"`
	Cancel  CCase  `json:"cancel"`
}

func TestReplay(t *testing.T) {
	path := os.Getenv("VERIF_REPLAY")
	if path == "" {
		t.Skip("VERIF_REPLAY not set")
	}
	var c replay
	if err := evid.LoadReplay(path, &c); err != nil {
		t.Fatal(err)
	}
	switch c.Kind {
	case "timeout":
		evid.Report(t, prop, c, CheckTimeout(c.Timeout))
	case "cancel":
		var vs []evid.Violation
		for i := 0; i < 3; i++ {
			if vs, _ = CheckCancel(c.Cancel); len(vs) == 0 {
				break
			}
		}
		evid.Report(t, prop, c, vs)
	default:
		t.Fatalf("unknown kind %q", c.Kind)
	}
}

var _ = proto.Marshal
