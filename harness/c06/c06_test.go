// C06 — stream sequence fidelity on every streaming transport.
package c06

import (
	"bytes"
	"compress/gzip"
	"encoding/base64"
	"encoding/json"
	"fmt"
	"io"
	"net/http"
	"os"
	"strconv"
	"strings"
	"sync"
	"testing"

	"google.golang.org/genproto/googleapis/api/annotations"
	"google.golang.org/genproto/googleapis/api/httpbody"
	"google.golang.org/grpc"
	"google.golang.org/grpc/codes"
	"google.golang.org/grpc/status"
	"google.golang.org/protobuf/encoding/protodelim"
	"google.golang.org/protobuf/encoding/protojson"
	"google.golang.org/protobuf/proto"
	"google.golang.org/protobuf/reflect/protoreflect"
	"google.golang.org/protobuf/types/dynamicpb"
	"larking.io/larking"
	"pgregory.net/rapid"

	"verif/drive"
	"verif/dyn"
	"verif/evid"
	"verif/uni"
)

const prop = "C06"

func TestMain(m *testing.M) {
	code := m.Run()
	evid.Flush()
	os.Exit(code)
}

// Case is one streaming call.
type Case struct {
	Shape       string   `json:"shape"`        // client | server | bidi | upload | download
	Transport   string   `json:"transport"`    // grpc | grpcweb | grpcwebtext | httpjson | httpproto | httpbody
	Gzip        bool     `json:"gzip"`         // gRPC per-message gzip / HTTP Content-Encoding: gzip
	PlainFrames []bool   `json:"plain_frames"` // gRPC with Gzip: message i travels uncompressed (flag 0), as grpc-go does for empty messages
	Msgs        [][]byte `json:"msgs"`         // wire form of un.All; upload: Msgs[0] = raw bytes
	Replies     [][]byte `json:"replies"`      // wire form of un.All; download: raw data parts
	PingPong    bool     `json:"ping_pong"`
	Chunks      []int    `json:"chunks"`
	EOFWithLast bool     `json:"eof_with_last"`
	TruncateAt  int      `json:"truncate_at"` // -1 none
	Limit       int      `json:"limit"`       // receive limit (upload chunk size); 0 = default
	FinalCode   int      `json:"final_code"`
	FinalMsg    string   `json:"final_msg"`
	WSReason    string   `json:"ws_reason"` // WebSocket: reason text of the client's normal-closure (1000) frame
	WSFrag      int      `json:"ws_frag"`   // WebSocket: messages longer than this travel as RFC 6455 fragments of this size (0 = one frame each)
}

var (
	worldOnce sync.Once
	world     *dyn.World
)

func post(p, body string) *annotations.HttpRule {
	return &annotations.HttpRule{Pattern: &annotations.HttpRule_Post{Post: p}, Body: body}
}

func theWorld() *dyn.World {
	worldOnce.Do(func() {
		bidi := post("/c6/bidi", "*")
		bidi.AdditionalBindings = []*annotations.HttpRule{{Pattern: &annotations.HttpRule_Custom{Custom: &annotations.CustomHttpPattern{Kind: "websocket", Path: "/c6/ws"}}, Body: "*"}}
		world = uni.WorldWith(dyn.Svc("C6",
			dyn.MethodSpec{Name: "ClientS", In: ".un.All", Out: ".un.All", ClientStream: true, Rule: post("/c6/client", "*")},
			dyn.MethodSpec{Name: "ServerS", In: ".un.All", Out: ".un.All", ServerStream: true, Rule: post("/c6/server", "*")},
			dyn.MethodSpec{Name: "Bidi", In: ".un.All", Out: ".un.All", ClientStream: true, ServerStream: true, Rule: bidi},
			dyn.MethodSpec{Name: "Upload", In: ".un.UploadReq", Out: ".un.All", ClientStream: true, Rule: post("/c6/upload/{name}", "file")},
			dyn.MethodSpec{Name: "Download", In: ".un.All", Out: ".google.api.HttpBody", ServerStream: true,
				Rule: &annotations.HttpRule{Pattern: &annotations.HttpRule_Get{Get: "/c6/download"}}},
		))
	})
	return world
}

type callLog struct {
	msgs     []proto.Message
	termErr  error
	sendErrs []error
	done     bool
	started  bool
}

// handler implements all five methods from one script.
func handler(c Case, w *dyn.World, log *callLog) dyn.StreamFn {
	mdAll := w.MsgDesc("un.All")
	replies := make([]proto.Message, len(c.Replies))
	for i, r := range c.Replies {
		if c.Shape == "download" {
			replies[i] = &httpbody.HttpBody{ContentType: "application/x-c6", Data: r}
			continue
		}
		m := dynamicpb.NewMessage(mdAll)
		if err := proto.Unmarshal(r, m); err != nil {
			panic(err)
		}
		replies[i] = m
	}
	final := func() error {
		log.done = true
		if c.FinalCode != 0 {
			return status.Error(codes.Code(c.FinalCode), c.FinalMsg)
		}
		return nil
	}
	send := func(ss grpc.ServerStream, m proto.Message) {
		if err := ss.SendMsg(m); err != nil {
			log.sendErrs = append(log.sendErrs, err)
		}
	}
	return func(full string, in, out protoreflect.MessageDescriptor, ss grpc.ServerStream) error {
		log.started = true
		sent := 0
		single := strings.HasSuffix(full, "/ServerS") || strings.HasSuffix(full, "/Download")
		for i := 0; ; i++ {
			if i > len(c.Msgs)+len(c.Msgs[0:min(1, len(c.Msgs))])*4096+8 {
				log.termErr = fmt.Errorf("handler gave up after %d messages", i)
				return log.termErr
			}
			m := dynamicpb.NewMessage(in)
			if err := ss.RecvMsg(m); err != nil {
				log.termErr = err
				if err != io.EOF {
					return err
				}
				break
			}
			log.msgs = append(log.msgs, m)
			if single {
				break
			}
			if c.PingPong && sent < len(replies) && strings.HasSuffix(full, "/Bidi") {
				send(ss, replies[sent])
				sent++
			}
		}
		switch {
		case strings.HasSuffix(full, "/ClientS"), strings.HasSuffix(full, "/Upload"):
			if len(replies) > 0 {
				send(ss, replies[0])
			} else {
				send(ss, dynamicpb.NewMessage(out))
			}
		default:
			for ; sent < len(replies); sent++ {
				send(ss, replies[sent])
			}
		}
		return final()
	}
}

var paths = map[string]string{"client": "/c6/client", "server": "/c6/server", "bidi": "/c6/bidi", "upload": "/c6/upload/file1", "download": "/c6/download"}
var methods = map[string]string{"client": "/un.C6/ClientS", "server": "/un.C6/ServerS", "bidi": "/un.C6/Bidi", "upload": "/un.C6/Upload", "download": "/un.C6/Download"}

func toJSON(w *dyn.World, wire []byte) []byte {
	m := dynamicpb.NewMessage(w.MsgDesc("un.All"))
	if err := proto.Unmarshal(wire, m); err != nil {
		panic(err)
	}
	b, err := protojson.Marshal(m)
	if err != nil {
		panic(err)
	}
	return b
}

// encodeRequest returns the body bytes, the end offset of each message in
// the (uncompressed-transport) byte stream and the headers.
func encodeRequest(c Case, w *dyn.World) (body []byte, bounds []int, hdr http.Header, exactBounds bool) {
	hdr = http.Header{}
	var buf bytes.Buffer
	exactBounds = true
	switch c.Transport {
	case "grpc", "grpcweb", "grpcwebtext":
		for i, m := range c.Msgs {
			plain := i < len(c.PlainFrames) && c.PlainFrames[i]
			buf.Write(drive.GRPCFrame(m, c.Gzip && !plain))
			bounds = append(bounds, buf.Len())
		}
		if c.Gzip {
			hdr.Set("Grpc-Encoding", "gzip")
		}
		body = buf.Bytes()
		if c.Transport == "grpcwebtext" {
			body = []byte(base64.StdEncoding.EncodeToString(body))
		}
		return body, bounds, hdr, true
	case "httpjson":
		hdr.Set("Content-Type", "application/json")
		for _, m := range c.Msgs {
			buf.Write(toJSON(w, m))
			bounds = append(bounds, buf.Len())
		}
	case "httpproto":
		hdr.Set("Content-Type", "application/protobuf")
		for _, m := range c.Msgs {
			if c.Shape == "server" {
				buf.Write(m) // not a client stream: the body is the message itself
			} else {
				larking.CodecProto{}.WriteNext(&buf, m)
			}
			bounds = append(bounds, buf.Len())
		}
	case "httpbody":
		hdr.Set("Content-Type", "application/x-upload")
		hdr.Set("Accept", "application/json")
		if len(c.Msgs) > 0 {
			buf.Write(c.Msgs[0])
		}
	}
	body = buf.Bytes()
	if c.Gzip {
		hdr.Set("Content-Encoding", "gzip")
		body = drive.Gzip(body)
		exactBounds = false
	}
	return body, bounds, hdr, exactBounds
}

type clientView struct {
	replies [][]byte // payload bytes per reply (decoded to wire form for messages)
	code    int      // final status code (-1 = no status channel)
	msg     string
	ctype   string
}

func parseResponse(c Case, w *dyn.World, res drive.Result) (clientView, error) {
	v := clientView{code: -1, ctype: res.Hdr.Get("Content-Type")}
	body := res.Rec.Body.Bytes()
	rewire := func(m proto.Message) []byte {
		b, _ := proto.MarshalOptions{Deterministic: true}.Marshal(m)
		return b
	}
	switch c.Transport {
	case "grpc":
		frames, err := drive.ParseFrames(body)
		if err != nil {
			return v, err
		}
		for _, f := range frames {
			v.replies = append(v.replies, f.Payload)
		}
		tr := res.Trailer
		st := tr.Get("Grpc-Status")
		if st == "" {
			st = res.Hdr.Get("Grpc-Status")
		}
		code, err := strconv.Atoi(st)
		if err != nil {
			return v, fmt.Errorf("no grpc-status (trailer %v header %v)", tr, res.Hdr)
		}
		v.code = code
		v.msg = tr.Get("Grpc-Message")
	case "grpcweb", "grpcwebtext":
		if c.Transport == "grpcwebtext" {
			dec, err := drive.DecodeWebText(body)
			if err != nil {
				return v, fmt.Errorf("grpc-web-text body is not valid base64: %v", err)
			}
			body = dec
		}
		frames, err := drive.ParseFrames(body)
		if err != nil {
			return v, err
		}
		sawTrailer := false
		for _, f := range frames {
			if f.Flag&0x80 != 0 {
				h, err := drive.ParseWebTrailer(f.Payload)
				if err != nil {
					return v, err
				}
				code, err := strconv.Atoi(h.Get("grpc-status"))
				if err != nil {
					return v, fmt.Errorf("trailer frame without grpc-status: %q", f.Payload)
				}
				v.code, v.msg = code, h.Get("grpc-message")
				sawTrailer = true
				continue
			}
			if sawTrailer {
				return v, fmt.Errorf("data frame after trailer frame")
			}
			v.replies = append(v.replies, f.Payload)
		}
		if !sawTrailer {
			// trailers-only response: status travels in the HTTP headers
			code, err := strconv.Atoi(res.Hdr.Get("Grpc-Status"))
			if err != nil || len(v.replies) > 0 {
				return v, fmt.Errorf("no trailer frame and no grpc-status header")
			}
			v.code, v.msg = code, res.Hdr.Get("Grpc-Message")
		}
	case "httpjson":
		dec := json.NewDecoder(bytes.NewReader(body))
		for {
			var raw json.RawMessage
			if err := dec.Decode(&raw); err == io.EOF {
				break
			} else if err != nil {
				return v, fmt.Errorf("response is not a sequence of JSON values: %v (%q)", err, trunc(body))
			}
			m := dynamicpb.NewMessage(w.MsgDesc("un.All"))
			if err := protojson.Unmarshal(raw, m); err != nil {
				if c.FinalCode != 0 {
					break // the error body follows the replies
				}
				return v, fmt.Errorf("reply %d: %v", len(v.replies), err)
			}
			v.replies = append(v.replies, rewire(m))
		}
	case "httpproto":
		br := bytes.NewReader(body)
		if c.Shape == "client" {
			// unary response: the body is the message itself
			m := dynamicpb.NewMessage(w.MsgDesc("un.All"))
			if err := proto.Unmarshal(body, m); err != nil {
				return v, err
			}
			v.replies = append(v.replies, rewire(m))
			break
		}
		for br.Len() > 0 {
			m := dynamicpb.NewMessage(w.MsgDesc("un.All"))
			if err := (protodelim.UnmarshalOptions{MaxSize: -1}).UnmarshalFrom(br, m); err != nil {
				if c.FinalCode != 0 {
					break
				}
				return v, fmt.Errorf("reply %d: %v", len(v.replies), err)
			}
			v.replies = append(v.replies, rewire(m))
		}
	case "httpbody":
		if c.Shape == "download" {
			v.replies = [][]byte{body}
		} else {
			m := dynamicpb.NewMessage(w.MsgDesc("un.All"))
			if err := protojson.Unmarshal(body, m); err != nil {
				return v, fmt.Errorf("upload reply: %v (%q)", err, trunc(body))
			}
			v.replies = append(v.replies, rewire(m))
		}
	}
	return v, nil
}

func trunc(b []byte) []byte {
	if len(b) > 120 {
		return b[:120]
	}
	return b
}

type info struct {
	splitInside, truncInside, nearChunk bool
}

func canon(w *dyn.World, wire []byte) []byte {
	m := dynamicpb.NewMessage(w.MsgDesc("un.All"))
	if err := proto.Unmarshal(wire, m); err != nil {
		panic(err)
	}
	b, _ := proto.MarshalOptions{Deterministic: true}.Marshal(m)
	return b
}

// Check runs the call and applies the oracle.
func Check(c Case) ([]evid.Violation, info) {
	var in info
	w := theWorld()
	log := &callLog{}
	var opts []larking.MuxOption
	opts = append(opts, larking.FilesOption(w.Files))
	if c.Limit > 0 {
		opts = append(opts, larking.MaxReceiveMessageSizeOption(c.Limit))
	}
	mux, err := larking.NewMux(opts...)
	if err != nil {
		panic(err)
	}
	if err := mux.VerifRegisterService(w.ServiceDesc("un.C6", nil, handler(c, w, log)), nil); err != nil {
		panic(err)
	}
	body, bounds, hdr, exact := encodeRequest(c, w)
	full := body
	if c.TruncateAt >= 0 && c.TruncateAt < len(body) {
		body = body[:c.TruncateAt]
	}
	rd := &drive.ScriptReader{Data: body, Chunks: append([]int{}, c.Chunks...), EOFWithLast: c.EOFWithLast}
	off := 0
	for _, ch := range c.Chunks {
		off += ch
		inside := off > 0 && off < len(body)
		for _, b := range bounds {
			if off == b {
				inside = false
			}
		}
		in.splitInside = in.splitInside || inside
	}
	var req *http.Request
	switch c.Transport {
	case "grpc":
		req = drive.GRPCRequest(methods[c.Shape], hdr, rd, "application/grpc")
	case "grpcweb":
		hdr.Set("Content-Type", "application/grpc-web+proto")
		req = drive.Request("POST", methods[c.Shape], "", hdr, rd, -1)
	case "grpcwebtext":
		hdr.Set("Content-Type", "application/grpc-web-text+proto")
		req = drive.Request("POST", methods[c.Shape], "", hdr, rd, -1)
	default:
		verb := "POST"
		if c.Shape == "download" {
			verb = "GET"
			req = drive.Request(verb, paths[c.Shape], "", hdr, nil, 0)
		} else {
			req = drive.Request(verb, paths[c.Shape], "", hdr, rd, -1)
		}
	}
	res := drive.Serve(mux, req)
	var vs []evid.Violation
	sigp := c.Transport + ":" + c.Shape + ":"
	fail := func(clause, sig, f string, a ...any) ([]evid.Violation, info) {
		return append(vs, evid.V(clause, sigp+sig, f, a...)), in
	}
	if res.Panic != nil {
		return fail("panic", res.PanicSig(), "panic: %v\n%s", res.Panic, res.Stack)
	}
	if rd.Reads > 16+4*len(body) {
		return fail("spin", "spin", "%d Read calls for a %d-byte body", rd.Reads, len(body))
	}

	// ---- handler view ----
	if !log.started {
		// refused before dispatch (e.g. a gzip body cut inside its header)
		if len(body) == len(full) || res.Rec.Code == 200 {
			return fail("dispatch", "not-dispatched", "handler never ran; status %d body %q (%s)", res.Rec.Code, trunc(res.Rec.Body.Bytes()), brief(c, len(body)))
		}
		return vs, in
	}
	if c.Shape == "upload" {
		data := []byte{}
		if len(c.Msgs) > 0 {
			data = c.Msgs[0]
		}
		var cat []byte
		for i, m := range log.msgs {
			r := m.ProtoReflect()
			file := r.Get(r.Descriptor().Fields().ByName("file")).Message()
			chunk := file.Get(file.Descriptor().Fields().ByName("data")).Bytes()
			if c.Limit > 0 && len(chunk) > c.Limit {
				return fail("upload", "chunk-over-limit", "chunk %d has %d bytes > limit %d", i, len(chunk), c.Limit)
			}
			if len(chunk) == 0 && !(len(log.msgs) == 1 && len(data) == 0) {
				return fail("upload", "empty-chunk", "chunk %d of %d is empty (upload %d bytes, limit %d)", i, len(log.msgs), len(data), c.Limit)
			}
			if i == 0 {
				if n := r.Get(r.Descriptor().Fields().ByName("name")).String(); n != "file1" {
					return fail("upload", "first-chunk-params", "first chunk name=%q want file1", n)
				}
			}
			cat = append(cat, chunk...)
		}
		if len(body) < len(full) {
			// only generated for gzip uploads: a gzip stream that is cut short is
			// detectably incomplete, so the handler must see a prefix of the data
			// and then an error, never a clean end of stream
			in.truncInside = true
			if !bytes.HasPrefix(data, cat) {
				return fail("upload", "bytes-differ", "truncated gzip upload: received bytes are not a prefix of the upload")
			}
			if log.termErr == nil || log.termErr == io.EOF {
				return fail("truncation", "truncation-reported-as-eof", "gzip upload cut at %d of %d compressed bytes: handler saw %d of %d bytes and then %v", len(body), len(full), len(cat), len(data), log.termErr)
			}
			return vs, in
		}
		if !bytes.Equal(cat, data) {
			return fail("upload", "bytes-differ", "upload of %d bytes (limit %d) received as %d bytes in %d chunks; terminal %v", len(data), c.Limit, len(cat), len(log.msgs), log.termErr)
		}
		if log.termErr != io.EOF {
			return fail("upload", "no-clean-eof", "upload ended with %v instead of io.EOF", log.termErr)
		}
		if c.Limit > 0 && (len(data)%c.Limit <= 1 || c.Limit-len(data)%c.Limit <= 1) {
			in.nearChunk = true
		}
	} else {
		// expected received prefix
		var want [][]byte
		cleanEnd := true
		single := c.Shape == "server" || c.Shape == "download"
		switch {
		case c.Shape == "download":
			want = nil // body-less GET: one message from the URL
		default:
			if len(body) == len(full) {
				want = c.Msgs
			} else {
				avail := len(body)
				if c.Transport == "grpcwebtext" {
					avail = len(body) / 4 * 3
				}
				prev := 0
				for i, b := range bounds {
					if b <= avail {
						want = append(want, c.Msgs[i])
						prev = b
					}
				}
				cleanEnd = avail == prev && (c.Transport != "grpcwebtext" || len(body)%4 == 0)
				in.truncInside = !cleanEnd
			}
		}
		if c.Shape == "download" {
			if len(log.msgs) != 1 {
				return fail("sequence", "download-request", "download handler received %d messages", len(log.msgs))
			}
		} else {
			if single && len(want) > 1 {
				want = want[:1]
			}
			if !exact && len(body) < len(full) {
				// compressed and truncated: a prefix of the messages, then an error
				if len(log.msgs) > len(c.Msgs) {
					return fail("sequence", "phantom-message", "received %d messages, sent %d", len(log.msgs), len(c.Msgs))
				}
				for i, m := range log.msgs {
					if !bytes.Equal(rewireMsg(m), canon(w, c.Msgs[i])) {
						return fail("sequence", "message-differs", "message %d differs", i)
					}
				}
				if !single && (log.termErr == nil || log.termErr == io.EOF) && len(log.msgs) < len(c.Msgs) {
					return fail("truncation", "truncation-reported-as-eof", "gzip body cut at %d of %d: handler saw %d of %d messages then %v", len(body), len(full), len(log.msgs), len(c.Msgs), log.termErr)
				}
				// every message whose bytes the cut stream still inflates to must be delivered: bytes that
				// arrive together with the decompressor's error are data like any other
				if !single && c.Transport != "grpc" && !strings.HasPrefix(c.Transport, "grpcweb") {
					inflated := 0
					if zr, err := gzip.NewReader(bytes.NewReader(body)); err == nil {
						b, _ := io.ReadAll(zr)
						inflated = len(b)
					}
					deliverable := 0
					for _, b := range bounds {
						if b <= inflated {
							deliverable++
						}
					}
					if len(log.msgs) < deliverable {
						return fail("sequence", "message-lost", "gzip body cut at %d of %d still inflates to %d bytes = %d complete messages, but the handler received %d before %v", len(body), len(full), inflated, deliverable, len(log.msgs), log.termErr)
					}
				}
			} else {
				n := len(log.msgs)
				for i := 0; i < n && i < len(want); i++ {
					if !bytes.Equal(rewireMsg(log.msgs[i]), canon(w, want[i])) {
						return fail("sequence", "message-differs", "message %d: handler got {%v} want {%v}", i, log.msgs[i], describe(w, want[i]))
					}
				}
				switch {
				case n < len(want):
					return fail("sequence", "message-lost", "handler received %d messages, want %d; terminal error %v (%s)", n, len(want), log.termErr, brief(c, len(body)))
				case n > len(want):
					return fail("sequence", "phantom-message", "handler received %d messages, want %d; extra {%v} (%s)", n, len(want), log.msgs[len(want)], brief(c, len(body)))
				}
				if !single {
					if cleanEnd && log.termErr != io.EOF {
						return fail("sequence", "no-clean-eof", "stream of %d messages ended with %v instead of io.EOF (%s)", len(want), log.termErr, brief(c, len(body)))
					}
					if !cleanEnd && (log.termErr == nil || log.termErr == io.EOF) {
						return fail("truncation", "truncation-reported-as-eof", "body cut inside a message (%d of %d bytes) but handler saw %v (%s)", len(body), len(full), log.termErr, brief(c, len(body)))
					}
				} else if len(want) == 0 && n == 0 && log.termErr == nil {
					return fail("sequence", "server-stream-no-request", "no request message and no error")
				}
			}
		}
	}

	// ---- client view (only when the handler ran to completion) ----
	if !log.done {
		return vs, in
	}
	if len(log.sendErrs) > 0 {
		return fail("send", "send-error", "SendMsg failed: %v", log.sendErrs[0])
	}
	if c.FinalCode != 0 && strings.HasPrefix(c.Transport, "http") && (c.Shape == "client" || c.Shape == "upload") {
		return vs, in // reply followed by an error body on a transport without status channel
	}
	view, perr := parseResponse(c, w, res)
	if perr != nil {
		return fail("response", "unparsable-response", "%v (status %d)", perr, res.Rec.Code)
	}
	wantReplies := c.Replies
	switch c.Shape {
	case "client", "upload":
		if len(wantReplies) > 1 {
			wantReplies = wantReplies[:1]
		}
		if len(wantReplies) == 0 {
			wantReplies = [][]byte{{}}
		}
	}
	statusChannel := view.code >= 0
	if c.FinalCode != 0 && !statusChannel {
		// plain HTTP: an error after replies cannot change the status line; only
		// check that what was sent is intact when the error came after >= 1 reply.
		if c.Shape == "client" || c.Shape == "upload" || len(wantReplies) == 0 {
			return vs, in
		}
	}
	if c.Shape == "download" {
		var cat []byte
		for _, r := range c.Replies {
			cat = append(cat, r...)
		}
		got := []byte{}
		if len(view.replies) > 0 {
			got = view.replies[0]
		}
		if c.FinalCode != 0 && len(got) > len(cat) {
			got = got[:len(cat)] // error body appended after the data
		}
		if !bytes.Equal(got, cat) {
			return fail("replies", "download-bytes-differ", "download of %d bytes in %d parts received as %d bytes", len(cat), len(c.Replies), len(got))
		}
		if len(c.Replies) > 0 && view.ctype != "application/x-c6" {
			return fail("replies", "download-content-type", "Content-Type %q", view.ctype)
		}
		return vs, in
	}
	gotReplies := view.replies
	if c.FinalCode != 0 && !statusChannel && len(gotReplies) > len(wantReplies) {
		gotReplies = gotReplies[:len(wantReplies)] // trailing error body
	}
	if c.FinalCode != 0 && statusChannel && (c.Shape == "client" || c.Shape == "upload") {
		wantReplies = wantReplies[:1]
	}
	if len(gotReplies) != len(wantReplies) {
		return fail("replies", "reply-count", "client saw %d replies, handler sent %d (%s)", len(gotReplies), len(wantReplies), brief(c, len(body)))
	}
	for i := range wantReplies {
		if proto.Unmarshal(gotReplies[i], dynamicpb.NewMessage(w.MsgDesc("un.All"))) != nil {
			return fail("replies", "reply-undecodable", "reply %d as the client received it (%d bytes, %x...) does not decode; the handler sent {%v}", i, len(gotReplies[i]), trunc(gotReplies[i]), describe(w, wantReplies[i]))
		}
		if !bytes.Equal(canon(w, gotReplies[i]), canon(w, wantReplies[i])) {
			return fail("replies", "reply-differs", "reply %d: client saw {%v} want {%v}", i, describe(w, gotReplies[i]), describe(w, wantReplies[i]))
		}
	}
	if statusChannel && view.code != c.FinalCode {
		return fail("status", "final-status", "final status %d %q, handler returned %d %q", view.code, view.msg, c.FinalCode, c.FinalMsg)
	}
	return vs, in
}

func bounds2(b []int) []byte {
	if len(b) == 0 {
		return nil
	}
	return make([]byte, b[len(b)-1])
}

func rewireMsg(m proto.Message) []byte {
	b, _ := proto.MarshalOptions{Deterministic: true}.Marshal(m)
	return b
}

func describe(w *dyn.World, wire []byte) string {
	m := dynamicpb.NewMessage(w.MsgDesc("un.All"))
	if proto.Unmarshal(wire, m) != nil {
		return fmt.Sprintf("%x", trunc(wire))
	}
	s := fmt.Sprint(m)
	if len(s) > 200 {
		s = s[:200] + "..."
	}
	return s
}

func brief(c Case, bodyLen int) string {
	var sizes []string
	for _, m := range c.Msgs {
		sizes = append(sizes, strconv.Itoa(len(m)))
	}
	return fmt.Sprintf("%s/%s gzip=%v plain=%v sizes=[%s] body=%dB chunks=%v eofWithLast=%v truncateAt=%d pingpong=%v", c.Transport, c.Shape, c.Gzip, c.PlainFrames, strings.Join(sizes, ","), bodyLen, c.Chunks, c.EOFWithLast, c.TruncateAt, c.PingPong)
}

// ---------------------------------------------------------------------------

func genMsg(t *rapid.T, label string) []byte {
	prof := uni.Profile{NoInf: false}
	switch rapid.IntRange(0, 7).Draw(t, label+"size") {
	case 0:
		return nil // empty message
	case 1:
		prof.FillProb = 3
	case 2:
		prof.FillProb, prof.MaxBytes = 60, 600
	}
	m := uni.GenMessage(t, uni.Base().MsgDesc("un.All"), prof)
	b, _ := proto.MarshalOptions{Deterministic: true}.Marshal(m)
	return b
}

func genCase(t *rapid.T) Case {
	c := Case{TruncateAt: -1}
	c.Transport = rapid.SampledFrom([]string{"grpc", "grpcweb", "grpcwebtext", "httpjson", "httpproto", "httpbody"}).Draw(t, "transport")
	if c.Transport == "httpbody" {
		c.Shape = rapid.SampledFrom([]string{"upload", "upload", "download"}).Draw(t, "shape")
	} else {
		c.Shape = rapid.SampledFrom([]string{"client", "server", "bidi"}).Draw(t, "shape")
	}
	c.Gzip = rapid.IntRange(0, 3).Draw(t, "gzip") == 0 && c.Shape != "download"
	maxN := 8
	if os.Getenv("VERIF_TIER") == "thorough" {
		maxN = 24
	}
	switch c.Shape {
	case "upload":
		c.Limit = rapid.SampledFrom([]int{8, 9, 16, 64, 256, 4096}).Draw(t, "limit")
		n := rapid.IntRange(0, 5).Draw(t, "mult")*c.Limit + rapid.IntRange(-1, 1).Draw(t, "delta")
		if n < 0 {
			n = 0
		}
		if rapid.IntRange(0, 4).Draw(t, "free") == 0 {
			n = rapid.IntRange(0, 4*c.Limit).Draw(t, "nfree")
		}
		b := make([]byte, n)
		x := uint32(n*2654435761 + 12345)
		for i := range b {
			x = x*1664525 + 1013904223
			b[i] = byte(x>>24) & 0x3f // mildly compressible
		}
		c.Msgs = [][]byte{b}
		c.Replies = [][]byte{genMsg(t, "reply")}
	case "download":
		n := rapid.IntRange(0, 5).Draw(t, "nparts")
		for i := 0; i < n; i++ {
			c.Replies = append(c.Replies, rapid.SliceOfN(rapid.Byte(), 0, 200).Draw(t, "part"))
		}
	default:
		n := rapid.IntRange(0, maxN).Draw(t, "nmsgs")
		if c.Shape == "server" {
			n = 1
		}
		for i := 0; i < n; i++ {
			c.Msgs = append(c.Msgs, genMsg(t, "msg"))
		}
		m := rapid.IntRange(0, maxN).Draw(t, "nreplies")
		for i := 0; i < m; i++ {
			c.Replies = append(c.Replies, genMsg(t, "reply"))
		}
		c.PingPong = rapid.Bool().Draw(t, "pingpong")
		if c.Gzip && strings.HasPrefix(c.Transport, "grpc") && rapid.Bool().Draw(t, "mixedFlags") {
			// the compressed flag is per message: an encoding may be negotiated and a message still sent plain
			for _, m := range c.Msgs {
				c.PlainFrames = append(c.PlainFrames, len(m) == 0 || rapid.IntRange(0, 2).Draw(t, "plain") == 0)
			}
		}
	}
	if rapid.IntRange(0, 5).Draw(t, "fail") == 0 {
		c.FinalCode = rapid.SampledFrom([]int{3, 5, 9, 13}).Draw(t, "code")
		c.FinalMsg = "scripted failure"
	}
	// body length estimate for the partition
	total := 0
	for _, m := range c.Msgs {
		total += len(m)*2 + 8
	}
	if total > 0 && c.Shape != "download" {
		switch rapid.IntRange(0, 3).Draw(t, "chunkStyle") {
		case 0:
		case 1:
			n := min(total, 600)
			c.Chunks = make([]int, n)
			for i := range c.Chunks {
				c.Chunks[i] = 1
			}
		default:
			k := rapid.IntRange(1, 10).Draw(t, "nchunks")
			for i := 0; i < k; i++ {
				c.Chunks = append(c.Chunks, rapid.IntRange(1, 1+total/3).Draw(t, "chunk"))
			}
		}
		c.EOFWithLast = rapid.Bool().Draw(t, "eofWithLast")
		if c.Shape != "upload" && c.Shape != "server" && rapid.IntRange(0, 3).Draw(t, "truncate") == 0 {
			c.TruncateAt = rapid.IntRange(0, total).Draw(t, "truncAt")
		}
		if c.Shape == "upload" && c.Gzip && rapid.IntRange(0, 1).Draw(t, "truncateUpload") == 0 {
			c.TruncateAt = rapid.IntRange(11, 11+len(c.Msgs[0])).Draw(t, "truncAtUpload") // past the 10-byte gzip header
		}
	}
	return c
}

func TestProp(t *testing.T) {
	rapid.Check(t, func(t *rapid.T) {
		c := genCase(t)
		vs, in := Check(c)
		cl := []string{"transport=" + c.Transport, "shape=" + c.Shape}
		if c.Gzip {
			cl = append(cl, "gzip")
			for _, p := range c.PlainFrames {
				if p {
					cl = append(cl, "gzip-stream-with-plain-frame")
					break
				}
			}
		}
		if in.splitInside {
			cl = append(cl, "split-inside")
		}
		if in.truncInside {
			cl = append(cl, "truncated-inside")
		}
		if in.nearChunk {
			cl = append(cl, "near-chunk-multiple")
		}
		if c.EOFWithLast {
			cl = append(cl, "eof-with-last")
		}
		key := ""
		if (len(c.Msgs) >= 2 && in.splitInside) || in.truncInside || in.nearChunk || len(c.Replies) >= 2 {
			var sizes []string
			for _, m := range c.Msgs {
				sizes = append(sizes, strconv.Itoa(len(m)))
			}
			key = fmt.Sprintf("%s|%s|%v|%v|%s|%d|%v|%v|%d|%v|%d", c.Transport, c.Shape, c.Gzip, c.PlainFrames, strings.Join(sizes, ","), len(c.Replies), c.Chunks, c.EOFWithLast, c.TruncateAt, c.PingPong, c.FinalCode)
		}
		evid.Eval(key, cl...)
		evid.Sample(c.Transport+"/"+c.Shape, map[string]any{"brief": brief(c, -1), "replies": len(c.Replies), "final_code": c.FinalCode})
		evid.Report(t, prop, c, vs)
	})
}

func TestReplay(t *testing.T) {
	path := os.Getenv("VERIF_REPLAY")
	if path == "" {
		t.Skip("VERIF_REPLAY not set")
	}
	var c Case
	if err := evid.LoadReplay(path, &c); err != nil {
		t.Fatal(err)
	}
	if c.Transport == "ws" {
		evid.Report(t, prop, c, CheckWS(c))
		return
	}
	vs, _ := Check(c)
	evid.Report(t, prop, c, vs)
}
