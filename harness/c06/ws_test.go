package c06

import (
	"context"
	"fmt"
	"io"
	"net"
	"net/http"
	"net/http/httptest"
	"strings"
	"sync"
	"sync/atomic"
	"testing"
	"time"

	"github.com/gobwas/ws"
	"github.com/gobwas/ws/wsutil"
	"google.golang.org/grpc"
	"google.golang.org/grpc/codes"
	"google.golang.org/grpc/status"
	"google.golang.org/protobuf/encoding/protojson"
	"google.golang.org/protobuf/proto"
	"google.golang.org/protobuf/reflect/protoreflect"
	"google.golang.org/protobuf/types/dynamicpb"
	"larking.io/larking"
	"pgregory.net/rapid"

	"verif/evid"
)

// WebSocket needs a hijackable connection, so this part runs over a real
// loopback listener.

var (
	wsOnce sync.Once
	wsSrv  *httptest.Server
	wsCur  atomic.Value // http.Handler
)

func wsServer() *httptest.Server {
	wsOnce.Do(func() {
		wsSrv = httptest.NewServer(http.HandlerFunc(func(w http.ResponseWriter, r *http.Request) {
			wsCur.Load().(http.Handler).ServeHTTP(w, r)
		}))
	})
	return wsSrv
}

type wsView struct {
	replies   [][]byte
	closeCode int
	reason    string
	err       error
}

// CheckWS runs a bidi call over WebSocket.
func CheckWS(c Case) []evid.Violation {
	w := theWorld()
	log := &callLog{}
	handlerDone := make(chan struct{})
	mux, err := larking.NewMux(larking.FilesOption(w.Files))
	if err != nil {
		panic(err)
	}
	inner := handler(c, w, log)
	if err := mux.VerifRegisterService(w.ServiceDesc("un.C6", nil, func(full string, in, out protoreflect.MessageDescriptor, ss grpc.ServerStream) error {
		defer close(handlerDone)
		if serverEnds(c) {
			// the server ends the call and the client never closes first:
			// WebSocket has no half-close, so after a client close neither
			// further replies nor the status can travel.
			sent := 0
			for i := range c.Msgs {
				m := dynamicpb.NewMessage(in)
				if err := ss.RecvMsg(m); err != nil {
					log.termErr = err
					return err
				}
				log.msgs = append(log.msgs, m)
				if c.PingPong && i < len(c.Replies) {
					r := dynamicpb.NewMessage(out)
					proto.Unmarshal(c.Replies[i], r)
					ss.SendMsg(r)
					sent++
				}
			}
			for ; sent < len(c.Replies); sent++ {
				r := dynamicpb.NewMessage(out)
				proto.Unmarshal(c.Replies[sent], r)
				ss.SendMsg(r)
			}
			log.termErr = io.EOF
			if c.FinalCode == 0 {
				return nil
			}
			return status.Error(codes.Code(c.FinalCode), c.FinalMsg)
		}
		return inner(full, in, out, ss)
	}), nil); err != nil {
		panic(err)
	}
	srv := wsServer()
	wsCur.Store(http.Handler(mux))
	ctx, cancel := context.WithTimeout(context.Background(), 10*time.Second)
	defer cancel()
	conn, br, _, err := ws.Dial(ctx, "ws"+strings.TrimPrefix(srv.URL, "http")+"/c6/ws")
	if err != nil {
		return []evid.Violation{evid.V("ws-dial", "ws:dial", "dial: %v", err)}
	}
	defer conn.Close()
	conn.SetDeadline(time.Now().Add(10 * time.Second))
	var rd io.Reader = conn
	if br != nil {
		rd = br // frames that arrived together with the handshake response
	}
	var view wsView
	readOne := func() (done bool) {
		f, err := ws.ReadFrame(rd)
		if err != nil {
			view.err = err
			return true
		}
		switch f.Header.OpCode {
		case ws.OpText, ws.OpBinary:
			m := dynamicpb.NewMessage(w.MsgDesc("un.All"))
			if err := protojson.Unmarshal(f.Payload, m); err != nil {
				view.err = fmt.Errorf("reply %d is not JSON for un.All: %v", len(view.replies), err)
				return true
			}
			view.replies = append(view.replies, rewireMsg(m))
		case ws.OpClose:
			code, reason := ws.ParseCloseFrameData(f.Payload)
			view.closeCode, view.reason = int(code), reason
			return true
		}
		return false
	}
	closed := false
	for i, m := range c.Msgs {
		var err error
		if js := toJSON(w, m); c.WSFrag > 0 && len(js) > c.WSFrag {
			// one message as a FIN=0 frame followed by continuation frames
			for off := 0; err == nil; off += c.WSFrag {
				end, op := off+c.WSFrag, ws.OpContinuation
				if off == 0 {
					op = ws.OpText
				}
				fin := end >= len(js)
				if fin {
					end = len(js)
				}
				err = ws.WriteFrame(conn, ws.MaskFrameInPlaceWith(ws.NewFrame(op, fin, append([]byte{}, js[off:end]...)), ws.NewMask()))
				if fin {
					break
				}
			}
		} else {
			err = wsutil.WriteClientMessage(conn, ws.OpText, js)
		}
		if err != nil {
			return []evid.Violation{evid.V("ws-write", "ws:write", "write %d: %v", i, err)}
		}
		if c.PingPong && i < len(c.Replies) {
			if readOne() {
				closed = true
				break
			}
		}
	}
	if !closed && serverEnds(c) {
		for !readOne() {
		}
		closed = true
	}
	if !closed {
		// clean end: close 1000
		if err := wsutil.WriteClientMessage(conn, ws.OpClose, ws.NewCloseFrameBody(ws.StatusNormalClosure, c.WSReason)); err != nil {
			return []evid.Violation{evid.V("ws-write", "ws:write-close", "close: %v", err)}
		}
		for !readOne() {
		}
	}
	select {
	case <-handlerDone:
	case <-time.After(10 * time.Second):
		return []evid.Violation{evid.V("ws-hang", "ws:handler-hang", "handler did not return within 10s (%s)", brief(c, 0))}
	}
	var vs []evid.Violation
	fail := func(clause, sig, f string, a ...any) []evid.Violation {
		return append(vs, evid.V(clause, "ws:"+sig, f, a...))
	}
	// handler view
	for i := 0; i < len(log.msgs) && i < len(c.Msgs); i++ {
		if string(rewireMsg(log.msgs[i])) != string(canon(w, c.Msgs[i])) {
			return fail("sequence", "message-differs", "message %d differs", i)
		}
	}
	if len(log.msgs) != len(c.Msgs) {
		return fail("sequence", "message-count", "handler received %d messages, client sent %d; terminal %v", len(log.msgs), len(c.Msgs), log.termErr)
	}
	if log.termErr != io.EOF {
		return fail("sequence", "no-clean-eof", "after close(1000) handler RecvMsg returned %T %v instead of io.EOF", log.termErr, log.termErr)
	}
	// client view
	if view.err != nil {
		if ne, ok := view.err.(net.Error); ok && ne.Timeout() {
			return fail("ws-timeout", "client-timeout", "no close frame within 10s")
		}
		return fail("replies", "client-read", "client read error: %v", view.err)
	}
	if len(view.replies) != len(c.Replies) {
		return fail("replies", "reply-count", "client saw %d replies, handler sent %d", len(view.replies), len(c.Replies))
	}
	for i := range c.Replies {
		if string(view.replies[i]) != string(canon(w, c.Replies[i])) {
			return fail("replies", "reply-differs", "reply %d differs", i)
		}
	}
	// a close frame without a status code is a normal closure (RFC 6455 7.1.5)
	if c.FinalCode == 0 && view.closeCode != 1000 && view.closeCode != 0 {
		return fail("status", "close-code", "handler returned OK but close code is %d %q", view.closeCode, view.reason)
	}
	if c.FinalCode != 0 && (view.closeCode == 1000 || view.closeCode == 0 || view.reason != c.FinalMsg) {
		return fail("status", "close-code", "handler returned %d %q but close frame is %d %q", c.FinalCode, c.FinalMsg, view.closeCode, view.reason)
	}
	return vs
}

func serverEnds(c Case) bool {
	return c.FinalCode != 0 || !c.PingPong || len(c.Replies) > len(c.Msgs)
}

func TestPropWS(t *testing.T) {
	rapid.Check(t, func(t *rapid.T) {
		c := Case{Shape: "bidi", Transport: "ws", TruncateAt: -1}
		n := rapid.IntRange(0, 6).Draw(t, "nmsgs")
		for i := 0; i < n; i++ {
			c.Msgs = append(c.Msgs, genMsg(t, "msg"))
		}
		m := rapid.IntRange(0, 6).Draw(t, "nreplies")
		for i := 0; i < m; i++ {
			c.Replies = append(c.Replies, genMsg(t, "reply"))
		}
		c.PingPong = rapid.Bool().Draw(t, "pingpong")
		if rapid.IntRange(0, 4).Draw(t, "fail") == 0 {
			c.FinalCode = rapid.SampledFrom([]int{3, 5, 9, 13}).Draw(t, "code")
			c.FinalMsg = "scripted failure"
		}
		c.WSReason = rapid.SampledFrom([]string{"", "", "done", "client finished sending", "fin ✓"}).Draw(t, "wsReason")
		if rapid.IntRange(0, 2).Draw(t, "fragmented") == 0 {
			c.WSFrag = rapid.SampledFrom([]int{1, 2, 5, 16, 100}).Draw(t, "wsFrag")
		}
		vs := CheckWS(c)
		key := ""
		if n >= 2 || m >= 2 {
			key = fmt.Sprintf("ws|%d|%d|%v|%d|%d|%s", n, m, c.PingPong, c.FinalCode, c.WSFrag, c.WSReason)
			for _, x := range c.Msgs {
				key += fmt.Sprintf("|%d", len(x))
			}
		}
		if c.WSFrag > 0 {
			evid.Eval(key, "transport=ws", "shape=bidi", "ws-fragmented")
		} else {
			evid.Eval(key, "transport=ws", "shape=bidi")
		}
		evid.Sample("ws/bidi", map[string]any{"brief": brief(c, -1), "replies": m, "final_code": c.FinalCode})
		evid.Report(t, prop, c, vs)
	})
}

var _ = proto.Marshal
