package drive

import (
	"bytes"
	"compress/gzip"
	"encoding/base64"
	"encoding/binary"
	"fmt"
	"io"
	"net/textproto"
	"strings"
)

// Gzip compresses b.
func Gzip(b []byte) []byte {
	var buf bytes.Buffer
	zw := gzip.NewWriter(&buf)
	zw.Write(b)
	zw.Close()
	return buf.Bytes()
}

// Gunzip inflates exactly one gzip stream and rejects trailing bytes.
func Gunzip(b []byte) ([]byte, error) {
	br := bytes.NewReader(b)
	zr, err := gzip.NewReader(br)
	if err != nil {
		return nil, err
	}
	zr.Multistream(false)
	out, err := io.ReadAll(zr)
	if err != nil {
		return nil, err
	}
	if br.Len() != 0 {
		return nil, fmt.Errorf("%d trailing bytes after gzip stream", br.Len())
	}
	return out, nil
}

// GRPCFrame builds one length-prefixed gRPC message (compressed with gzip if
// asked).
func GRPCFrame(payload []byte, compress bool) []byte {
	flag := byte(0)
	if compress {
		payload = Gzip(payload)
		flag = 1
	}
	out := make([]byte, 5+len(payload))
	out[0] = flag
	binary.BigEndian.PutUint32(out[1:], uint32(len(payload)))
	copy(out[5:], payload)
	return out
}

// Frame is one parsed gRPC / gRPC-web frame.
type Frame struct {
	Flag    byte
	Payload []byte // decompressed when Flag&1
}

// ParseFrames splits a gRPC(-web) body into frames; compressed data frames
// are inflated. It fails on a partial frame.
func ParseFrames(b []byte) ([]Frame, error) {
	var out []Frame
	for len(b) > 0 {
		if len(b) < 5 {
			return out, fmt.Errorf("partial frame header: %d bytes", len(b))
		}
		n := int(binary.BigEndian.Uint32(b[1:5]))
		if len(b) < 5+n {
			return out, fmt.Errorf("partial frame: header says %d, have %d", n, len(b)-5)
		}
		f := Frame{Flag: b[0], Payload: append([]byte{}, b[5:5+n]...)}
		if f.Flag&1 == 1 && f.Flag&0x80 == 0 {
			p, err := Gunzip(f.Payload)
			if err != nil {
				return out, fmt.Errorf("frame %d: %v", len(out), err)
			}
			f.Payload = p
		}
		out = append(out, f)
		b = b[5+n:]
	}
	return out, nil
}

// ParseWebTrailer parses the payload of a gRPC-web trailer frame.
func ParseWebTrailer(p []byte) (WebTrailer, error) {
	tp := textproto.NewReader(bufioReader(append(append([]byte{}, p...), "\r\n"...)))
	mh, err := tp.ReadMIMEHeader()
	if err != nil && err != io.EOF {
		return nil, err
	}
	h := WebTrailer{}
	for k, v := range mh {
		h[strings.ToLower(k)] = v
	}
	return h, nil
}

// WebTrailer holds gRPC-web trailers keyed by lower-case name.
type WebTrailer map[string][]string

// Get returns the first value of the lower-case key.
func (w WebTrailer) Get(k string) string {
	if v := w[strings.ToLower(k)]; len(v) > 0 {
		return v[0]
	}
	return ""
}

// DecodeWebText decodes a grpc-web-text body: a concatenation of base64
// segments, each possibly padded.
func DecodeWebText(b []byte) ([]byte, error) {
	var out []byte
	s := string(b)
	for len(s) > 0 {
		// take up to and including the first padded quantum
		end := len(s)
		if i := strings.IndexByte(s, '='); i >= 0 {
			end = i
			for end < len(s) && s[end] == '=' {
				end++
			}
		}
		seg := s[:end]
		if len(seg)%4 != 0 {
			return out, fmt.Errorf("base64 segment of %d chars is not a whole number of quanta", len(seg))
		}
		d, err := base64.StdEncoding.DecodeString(seg)
		if err != nil {
			return out, err
		}
		out = append(out, d...)
		s = s[end:]
	}
	return out, nil
}
