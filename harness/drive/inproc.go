// Package drive holds the transports used by the checks: in-process
// ServeHTTP calls with scripted readers, framing helpers and real clients.
package drive

import (
	"context"
	"errors"
	"fmt"
	"io"
	"net/http"
	"net/http/httptest"
	"net/url"
	"regexp"
	"runtime/debug"
	"strings"
)

// Result of one in-process request.
type Result struct {
	Hdr     http.Header // response headers as sent (snapshot at first write)
	Trailer http.Header // response trailers as sent
	Rec     *httptest.ResponseRecorder
	Panic   any    // recovered panic value, nil if none
	Stack   string // stack of the panic
}

// PanicSig returns a stable signature for a panic: the first larking frame.
func (r Result) PanicSig() string {
	if r.Panic == nil {
		return ""
	}
	return "panic@" + TopFrame(r.Stack)
}

var frameRe = regexp.MustCompile(`larking\.io/larking\.([^\s(]+(?:\([^)]*\))?[^\s(]*)\(`)

// TopFrame extracts the first larking function in a stack trace.
func TopFrame(stack string) string {
	for _, line := range strings.Split(stack, "\n") {
		if strings.Contains(line, "larking.io/larking.") && !strings.Contains(line, "verif") {
			line = strings.TrimSpace(line)
			if i := strings.Index(line, "larking.io/larking."); i >= 0 {
				fn := line[i+len("larking.io/larking."):]
				if j := strings.LastIndex(fn, "("); j > 0 {
					fn = fn[:j]
				}
				fn = strings.NewReplacer("(", "", ")", "", "*", "").Replace(fn)
				return fn
			}
		}
	}
	return "unknown"
}

// Serve runs h.ServeHTTP(recorder, r) and recovers panics.
func Serve(h http.Handler, r *http.Request) (res Result) {
	res.Rec = httptest.NewRecorder()
	defer func() {
		if p := recover(); p != nil {
			res.Panic = p
			res.Stack = string(debug.Stack())
		}
		rr := res.Rec.Result()
		res.Hdr, res.Trailer = rr.Header, rr.Trailer
	}()
	h.ServeHTTP(res.Rec, r)
	return res
}

// Request builds a server-side request by hand so that any byte sequence can
// be a path. body may be nil. contentLength: -1 unknown, 0 none.
// RequestTarget is Request for a request-target exactly as a client spelled it
// (percent-encoding included): the URL is parsed the way net/http parses the
// request line, so URL.Path is the decoded form and URL.RawPath is set whenever
// the spelling is not the canonical one. ok is false if the target does not parse.
func RequestTarget(method, rawTarget, rawQuery string, hdr http.Header, body io.Reader, contentLength int64) (r *http.Request, ok bool) {
	u, err := url.ParseRequestURI(rawTarget)
	if err != nil {
		return nil, false
	}
	u.RawQuery = rawQuery
	r = Request(method, u.Path, rawQuery, hdr, body, contentLength)
	r.URL = u
	r.RequestURI = rawTarget
	if rawQuery != "" {
		r.RequestURI += "?" + rawQuery
	}
	return r, true
}

// Spell re-encodes the decoded path p byte by byte: choice(i) = 0 leaves the
// canonical spelling, 1 percent-encodes the byte with upper-case hex (even if it
// needs no encoding), 2 with lower-case hex. '/' is never encoded.
func Spell(p string, choice func(i int) int) string {
	const upper, lower = "0123456789ABCDEF", "0123456789abcdef"
	var sb []byte
	for i := 0; i < len(p); i++ {
		b := p[i]
		ch := choice(i)
		if b == '/' {
			sb = append(sb, b)
			continue
		}
		canonicalRaw := b >= 'a' && b <= 'z' || b >= 'A' && b <= 'Z' || b >= '0' && b <= '9' || strings.IndexByte("-._~$&+,:;=@!'()*", b) >= 0
		switch {
		case ch == 2:
			sb = append(sb, '%', lower[b>>4], lower[b&15])
		case ch == 1 || !canonicalRaw:
			sb = append(sb, '%', upper[b>>4], upper[b&15])
		default:
			sb = append(sb, b)
		}
	}
	return string(sb)
}

func Request(method, path, rawQuery string, hdr http.Header, body io.Reader, contentLength int64) *http.Request {
	if hdr == nil {
		hdr = http.Header{}
	}
	var rc io.ReadCloser = http.NoBody
	if body != nil {
		rc = io.NopCloser(body)
	}
	r := &http.Request{
		Method:        method,
		URL:           &url.URL{Path: path, RawQuery: rawQuery},
		Proto:         "HTTP/1.1",
		ProtoMajor:    1,
		ProtoMinor:    1,
		Header:        hdr,
		Body:          rc,
		ContentLength: contentLength,
		Host:          "verif.test",
		RemoteAddr:    "192.0.2.1:1234",
		RequestURI:    path,
	}
	return r.WithContext(context.Background())
}

// GRPCRequest is Request with ProtoMajor=2 and a gRPC content type.
func GRPCRequest(path string, hdr http.Header, body io.Reader, contentType string) *http.Request {
	if hdr == nil {
		hdr = http.Header{}
	}
	if contentType == "" {
		contentType = "application/grpc"
	}
	hdr.Set("Content-Type", contentType)
	if hdr.Get("Te") == "" {
		hdr.Set("Te", "trailers")
	}
	r := Request("POST", path, "", hdr, body, -1)
	r.Proto, r.ProtoMajor, r.ProtoMinor = "HTTP/2.0", 2, 0
	return r
}

// ScriptReader delivers Data in the given chunk sizes. After the chunks are
// exhausted the remainder is delivered one Read at a time with the caller's
// buffer size. If EOFWithLast the final bytes are returned together with the
// terminal error. Err (default io.EOF) is the terminal error.
type ScriptReader struct {
	Data        []byte
	Chunks      []int
	EOFWithLast bool
	Err         error
	Reads       int // number of Read calls observed
	ZeroReads   int
	pos, ci     int
}

// ErrSpin ends a caller that keeps calling Read without making progress: after 2^21 calls
// (far beyond what any body of the sizes used here needs) every further Read fails, so that
// a spinning serving goroutine terminates and the read-count oracles see it.
var ErrSpin = errors.New("verif: reader called 2^21 times - the caller spins")

func (s *ScriptReader) Read(p []byte) (int, error) {
	s.Reads++
	if s.Reads > 1<<21 {
		return 0, ErrSpin
	}
	term := s.Err
	if term == nil {
		term = io.EOF
	}
	if s.pos >= len(s.Data) {
		return 0, term
	}
	if len(p) == 0 {
		s.ZeroReads++
		return 0, nil
	}
	n := len(s.Data) - s.pos
	if s.ci < len(s.Chunks) {
		c := s.Chunks[s.ci]
		if c == 0 {
			// scripted zero-length read without error
			s.ci++
			return 0, nil
		}
		if c < n {
			n = c
		}
	}
	if n > len(p) {
		n = len(p)
		if s.ci < len(s.Chunks) {
			s.Chunks[s.ci] -= n
		}
	} else if s.ci < len(s.Chunks) {
		s.ci++
	}
	copy(p, s.Data[s.pos:s.pos+n])
	s.pos += n
	if s.pos >= len(s.Data) && s.EOFWithLast {
		return n, term
	}
	return n, nil
}

// Remaining returns the bytes not yet delivered.
func (s *ScriptReader) Remaining() []byte { return s.Data[s.pos:] }

func (s *ScriptReader) String() string {
	return fmt.Sprintf("ScriptReader{len=%d chunks=%v eofWithLast=%v}", len(s.Data), s.Chunks, s.EOFWithLast)
}

// StackNow returns the current goroutine's stack (for use in recover blocks).
func StackNow() string { return string(debug.Stack()) }
