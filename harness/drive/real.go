package drive

import (
	"net"
	"net/http"
	"sync"
	"sync/atomic"
	"time"

	"golang.org/x/net/http2"
	"golang.org/x/net/http2/h2c"
	"google.golang.org/grpc"
	"google.golang.org/grpc/credentials/insecure"
)

// Swap is a real HTTP/1.1 + h2c server on loopback whose handler can be
// replaced between cases, plus a shared grpc-go client connection to it.
type Swap struct {
	Addr string
	URL  string
	CC   *grpc.ClientConn
	cur  atomic.Value
	srv  *http.Server
}

var (
	swapOnce sync.Once
	swap     *Swap
)

// Real returns the process-wide swap server (started on first use).
func Real() *Swap {
	swapOnce.Do(func() {
		s := &Swap{}
		ln, err := net.Listen("tcp", "127.0.0.1:0")
		if err != nil {
			panic(err)
		}
		h := http.HandlerFunc(func(w http.ResponseWriter, r *http.Request) {
			s.cur.Load().(http.Handler).ServeHTTP(w, r)
		})
		s.srv = &http.Server{Handler: h2c.NewHandler(h, &http2.Server{}), ReadHeaderTimeout: 10 * time.Second}
		go s.srv.Serve(ln)
		s.Addr = ln.Addr().String()
		s.URL = "http://" + s.Addr
		cc, err := grpc.NewClient(s.Addr, grpc.WithTransportCredentials(insecure.NewCredentials()))
		if err != nil {
			panic(err)
		}
		s.CC = cc
		swap = s
	})
	return swap
}

// Use installs h as the current handler.
func (s *Swap) Use(h http.Handler) { s.cur.Store(h) }
