package drive

import (
	"net"

	"google.golang.org/grpc"
	"google.golang.org/grpc/credentials/insecure"
	"google.golang.org/grpc/reflection"
	rpb "google.golang.org/grpc/reflection/grpc_reflection_v1alpha"
	"google.golang.org/protobuf/reflect/protoregistry"

	"verif/dyn"
)

// Backend is a real grpc.Server on loopback with (v1alpha) reflection over a
// dynamic world, plus a client connection to it.
type Backend struct {
	Server *grpc.Server
	Addr   string
	CC     *grpc.ClientConn
}

// StartBackend serves the given service descriptors.
func StartBackend(w *dyn.World, sds ...*grpc.ServiceDesc) *Backend {
	s := grpc.NewServer()
	for _, sd := range sds {
		s.RegisterService(sd, nil)
	}
	rpb.RegisterServerReflectionServer(s, reflection.NewServer(reflection.ServerOptions{
		Services:           s,
		DescriptorResolver: dyn.Resolver(w.Files),
		ExtensionResolver:  protoregistry.GlobalTypes,
	}))
	ln, err := net.Listen("tcp", "127.0.0.1:0")
	if err != nil {
		panic(err)
	}
	go s.Serve(ln)
	cc, err := grpc.NewClient(ln.Addr().String(), grpc.WithTransportCredentials(insecure.NewCredentials()))
	if err != nil {
		panic(err)
	}
	return &Backend{Server: s, Addr: ln.Addr().String(), CC: cc}
}

// Dial opens another client connection to the backend.
func (b *Backend) Dial() *grpc.ClientConn {
	cc, err := grpc.NewClient(b.Addr, grpc.WithTransportCredentials(insecure.NewCredentials()))
	if err != nil {
		panic(err)
	}
	return cc
}

// Stop stops the server and closes the connection.
func (b *Backend) Stop() {
	b.CC.Close()
	b.Server.Stop()
}
