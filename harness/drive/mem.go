package drive

import (
	"context"
	"net"
	"net/http"
	"sync"
	"sync/atomic"
	"time"

	"google.golang.org/grpc/test/bufconn"
)

// MemServer is a process-wide net/http server on an in-memory listener: real connections (hijackable,
// so WebSocket upgrades work) without consuming ephemeral ports - a check may open tens of thousands.
type MemServer struct {
	cur atomic.Value // http.Handler
	lis *bufconn.Listener
}

var (
	memOnce sync.Once
	mem     *MemServer
)

// Mem returns the in-memory swap server (started on first use).
func Mem() *MemServer {
	memOnce.Do(func() {
		m := &MemServer{lis: bufconn.Listen(64 << 10)}
		srv := &http.Server{Handler: http.HandlerFunc(func(w http.ResponseWriter, r *http.Request) {
			m.cur.Load().(http.Handler).ServeHTTP(w, r)
		}), ReadHeaderTimeout: 10 * time.Second}
		go srv.Serve(m.lis)
		mem = m
	})
	return mem
}

// Use installs h as the current handler.
func (m *MemServer) Use(h http.Handler) { m.cur.Store(h) }

// Dial opens a connection to the server; the signature fits ws.Dialer.NetDial.
func (m *MemServer) Dial(ctx context.Context, network, addr string) (net.Conn, error) {
	return m.lis.DialContext(ctx)
}
