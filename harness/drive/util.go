package drive

import (
	"bufio"
	"bytes"
)

func bufioReader(b []byte) *bufio.Reader { return bufio.NewReader(bytes.NewReader(b)) }
