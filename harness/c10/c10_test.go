// C10 — proxying through RegisterConn is transparent.
package c10

import (
	"bytes"
	"context"
	"encoding/base64"
	"encoding/json"
	"fmt"
	"io"
	"net/http"
	"os"
	"sort"
	"strings"
	"sync"
	"sync/atomic"
	"testing"
	"time"

	"google.golang.org/genproto/googleapis/rpc/errdetails"
	spb "google.golang.org/genproto/googleapis/rpc/status"
	"google.golang.org/grpc"
	"google.golang.org/grpc/codes"
	_ "google.golang.org/grpc/encoding/gzip"
	"google.golang.org/grpc/metadata"
	"google.golang.org/grpc/status"
	"google.golang.org/protobuf/encoding/protojson"
	"google.golang.org/protobuf/proto"
	"google.golang.org/protobuf/reflect/protoreflect"
	"google.golang.org/protobuf/types/dynamicpb"
	"google.golang.org/protobuf/types/known/anypb"
	"larking.io/larking"
	"pgregory.net/rapid"

	"verif/drive"
	"verif/dyn"
	"verif/evid"
	"verif/uni"
)

const prop = "C10"

func TestMain(m *testing.M) {
	code := m.Run()
	evid.Flush()
	os.Exit(code)
}

type KV struct {
	Key  string   `json:"key"`
	Vals [][]byte `json:"vals"`
}

type Script struct {
	Shape     string   `json:"shape"` // unary | client | server | bidi
	Front     string   `json:"front"` // grpc | grpc-gzip | http
	Msgs      [][]byte `json:"msgs"`
	MD        []KV     `json:"md"`
	PingPong  bool     `json:"ping_pong"`
	Replies   int      `json:"replies"`
	FailPoint string   `json:"fail_point"` // none | before-first | after-k | after-halfclose
	K         int      `json:"k"`
	Code      uint32   `json:"code"`
	Msg       string   `json:"msg"`
	Detail    bool     `json:"detail"`
	// HTTP1 (http front): the request carries the headers an HTTP/1.1 client adds about its own connection
	// (browsers send Connection: keep-alive); they describe the hop, not the call
	HTTP1 string `json:"http1"`
	// Chunks (http front): sizes of the successive reads the request body is delivered in (none: one read);
	// HTTPProto: the request body travels as protobuf (length-delimited for streams), the replies stay JSON
	Chunks    []int `json:"chunks"`
	HTTPProto bool  `json:"http_proto"`
}

type backendLog struct {
	mu      sync.Mutex
	msgs    [][]byte
	md      map[string][]string
	recvEnd string // EOF | error:<code>
	ran     bool
}

type state struct {
	s   Script
	log *backendLog
}

var (
	once    sync.Once
	world   *dyn.World
	backend *drive.Backend
	mux     *larking.Mux
	cur     atomic.Pointer[state]
)

var methods = map[string]string{"unary": "/un.C10/Unary", "client": "/un.C10/ClientS", "server": "/un.C10/ServerS", "bidi": "/un.C10/Bidi"}

func (s Script) err() error {
	p := &spb.Status{Code: int32(s.Code), Message: s.Msg}
	if s.Detail {
		a, _ := anypb.New(&errdetails.ErrorInfo{Reason: "r", Domain: "c10"})
		p.Details = append(p.Details, a)
	}
	return status.FromProto(p).Err()
}

// customMD keeps the metadata the script sent (and anything else that looks custom); what the transports add on
// their own (user-agent, :authority, content-type, accept-encoding ...) differs between the two routes by nature.
func customMD(md metadata.MD, s Script) map[string][]string {
	sent := map[string]bool{}
	for _, kv := range s.MD {
		sent[kv.Key] = true
	}
	out := map[string][]string{}
	for k, v := range md {
		if strings.HasPrefix(k, "x-") || sent[k] {
			out[k] = append([]string{}, v...)
		}
	}
	return out
}

func wire(m proto.Message) []byte {
	b, _ := proto.MarshalOptions{Deterministic: true}.Marshal(m)
	return b
}

func setup() {
	once.Do(func() {
		world = uni.WorldWith(dyn.Svc("C10",
			dyn.MethodSpec{Name: "Unary", In: ".un.All", Out: ".un.All"},
			dyn.MethodSpec{Name: "ClientS", In: ".un.All", Out: ".un.All", ClientStream: true},
			dyn.MethodSpec{Name: "ServerS", In: ".un.All", Out: ".un.All", ServerStream: true},
			dyn.MethodSpec{Name: "Bidi", In: ".un.All", Out: ".un.All", ClientStream: true, ServerStream: true},
		))
		reply := func(out protoreflect.MessageDescriptor, i int) proto.Message {
			m := dynamicpb.NewMessage(out)
			m.Set(out.Fields().ByName("f_int32"), protoreflect.ValueOfInt32(int32(1000+i)))
			m.Set(out.Fields().ByName("f_string"), protoreflect.ValueOfString(strings.Repeat("r", i*37%200)))
			return m
		}
		unary := func(ctx context.Context, fm string, req *dynamicpb.Message) (proto.Message, error) {
			st := cur.Load()
			md, _ := metadata.FromIncomingContext(ctx)
			st.log.mu.Lock()
			st.log.ran = true
			st.log.md = customMD(md, st.s)
			st.log.msgs = append(st.log.msgs, wire(req))
			st.log.mu.Unlock()
			if st.s.FailPoint != "none" {
				return nil, st.s.err()
			}
			return reply(req.Descriptor(), 0), nil
		}
		stream := func(full string, in, out protoreflect.MessageDescriptor, ss grpc.ServerStream) error {
			st := cur.Load()
			s, log := st.s, st.log
			md, _ := metadata.FromIncomingContext(ss.Context())
			log.mu.Lock()
			log.ran = true
			log.md = customMD(md, s)
			log.mu.Unlock()
			if s.FailPoint == "before-first" {
				return s.err()
			}
			sent := 0
			send := func() error {
				if s.FailPoint == "after-k" && sent == s.K {
					return s.err()
				}
				if err := ss.SendMsg(reply(out, sent)); err != nil {
					return err
				}
				sent++
				return nil
			}
			total := s.Replies
			if s.Shape == "client" {
				total = 1
			}
			for i := 0; ; i++ {
				m := dynamicpb.NewMessage(in)
				if err := ss.RecvMsg(m); err != nil {
					log.mu.Lock()
					if err == io.EOF {
						log.recvEnd = "EOF"
					} else {
						log.recvEnd = "error:" + status.Code(err).String()
					}
					log.mu.Unlock()
					if err != io.EOF {
						return err
					}
					break
				}
				log.mu.Lock()
				log.msgs = append(log.msgs, wire(m))
				log.mu.Unlock()
				if s.Shape == "server" {
					break
				}
				if s.Shape == "bidi" && s.PingPong && sent < total {
					if err := send(); err != nil {
						return err
					}
				}
			}
			if s.FailPoint == "after-halfclose" {
				return s.err()
			}
			for sent < total {
				if err := send(); err != nil {
					return err
				}
			}
			if s.FailPoint == "after-k" && sent == s.K {
				return s.err()
			}
			return nil
		}
		backend = drive.StartBackend(world, world.ServiceDesc("un.C10", unary, stream))
		var err error
		mux, err = larking.NewMux()
		if err != nil {
			panic(err)
		}
		ctx, cancel := context.WithTimeout(context.Background(), 20*time.Second)
		defer cancel()
		if err := mux.RegisterConn(ctx, backend.CC); err != nil {
			panic(fmt.Sprintf("RegisterConn: %v", err))
		}
	})
}

type clientView struct {
	Replies [][]byte
	Code    codes.Code
	Msg     string
	Details int
	Hang    bool
	Err     string
}

func (v clientView) String() string {
	return fmt.Sprintf("{replies=%d code=%v msg=%q details=%d hang=%v}", len(v.Replies), v.Code, v.Msg, v.Details, v.Hang)
}

const callTimeout = 8 * time.Second

func runGRPC(cc *grpc.ClientConn, s Script) clientView {
	var v clientView
	ctx, cancel := context.WithTimeout(context.Background(), callTimeout)
	defer cancel()
	md := metadata.MD{}
	for _, kv := range s.MD {
		for _, val := range kv.Vals {
			md.Append(kv.Key, string(val))
		}
	}
	ctx = metadata.NewOutgoingContext(ctx, md)
	var opts []grpc.CallOption
	if s.Front == "grpc-gzip" {
		opts = append(opts, grpc.UseCompressor("gzip"))
	}
	mdAll := world.MsgDesc("un.All")
	newMsg := func(b []byte) proto.Message {
		m := dynamicpb.NewMessage(mdAll)
		proto.Unmarshal(b, m)
		return m
	}
	finish := func(err error) clientView {
		if err == io.EOF {
			err = nil
		}
		st, _ := status.FromError(err)
		v.Code, v.Msg, v.Details = st.Code(), st.Message(), len(st.Proto().GetDetails())
		if ctx.Err() == context.DeadlineExceeded {
			v.Hang = true
		}
		if err != nil {
			v.Err = err.Error()
		}
		return v
	}
	if s.Shape == "unary" {
		out := dynamicpb.NewMessage(mdAll)
		err := cc.Invoke(ctx, methods[s.Shape], newMsg(s.Msgs[0]), out, opts...)
		if err == nil {
			v.Replies = append(v.Replies, wire(out))
		}
		return finish(err)
	}
	desc := &grpc.StreamDesc{ClientStreams: s.Shape != "server", ServerStreams: s.Shape != "client"}
	cs, err := cc.NewStream(ctx, desc, methods[s.Shape], opts...)
	if err != nil {
		return finish(err)
	}
	recvOne := func() error {
		m := dynamicpb.NewMessage(mdAll)
		if err := cs.RecvMsg(m); err != nil {
			return err
		}
		v.Replies = append(v.Replies, wire(m))
		return nil
	}
	total := s.Replies
	if s.Shape == "client" {
		total = 1
	}
	for i, b := range s.Msgs {
		if err := cs.SendMsg(newMsg(b)); err != nil {
			break // the final status is read below; send errors are not compared
		}
		if s.Shape == "bidi" && s.PingPong && i < total {
			if err := recvOne(); err != nil {
				return finish(err)
			}
		}
	}
	cs.CloseSend()
	for {
		if err := recvOne(); err != nil {
			return finish(err)
		}
	}
}

func runHTTP(s Script) (clientView, int) {
	var v clientView
	hdr := http.Header{}
	hdr.Set("Content-Type", "application/json")
	switch s.HTTP1 {
	case "keep-alive":
		hdr.Set("Connection", "keep-alive")
	case "keep-alive-timeout":
		hdr.Set("Connection", "keep-alive")
		hdr.Set("Keep-Alive", "timeout=5, max=100")
	case "close":
		hdr.Set("Connection", "close")
	case "proxy":
		hdr.Set("Proxy-Connection", "keep-alive")
	}
	for _, kv := range s.MD {
		for _, val := range kv.Vals {
			if strings.HasSuffix(kv.Key, "-bin") {
				hdr.Add(kv.Key, base64.RawStdEncoding.EncodeToString(val))
			} else {
				hdr.Add(kv.Key, string(val))
			}
		}
	}
	// unary / server streaming: the body is the message; client / bidi streaming: a stream of JSON messages
	var body []byte
	msgs := s.Msgs
	if (s.Shape == "unary" || s.Shape == "server") && len(msgs) > 1 {
		msgs = msgs[:1]
	}
	streaming := s.Shape == "client" || s.Shape == "bidi"
	if s.HTTPProto {
		hdr.Set("Content-Type", "application/protobuf")
		hdr.Set("Accept", "application/json")
	}
	for _, raw := range msgs {
		if s.HTTPProto {
			if streaming {
				var sb bytes.Buffer
				larking.CodecProto{}.WriteNext(&sb, raw)
				raw = sb.Bytes()
			}
			body = append(body, raw...)
			continue
		}
		m := dynamicpb.NewMessage(world.MsgDesc("un.All"))
		proto.Unmarshal(raw, m)
		b, _ := protojson.Marshal(m)
		body = append(body, b...)
	}
	cl := int64(len(body))
	if s.Shape == "client" || s.Shape == "bidi" {
		cl = -1
	}
	var rd io.Reader = bytes.NewReader(body)
	if len(s.Chunks) > 0 && len(body) > 0 {
		rd = &drive.ScriptReader{Data: body, Chunks: append([]int{}, s.Chunks...)}
	}
	// like the gRPC front, the call gets callTimeout: a real server cancels the request context when the client
	// gives up, and a call that is still running then counts as hung
	ctx, cancel := context.WithTimeout(context.Background(), callTimeout)
	defer cancel()
	req := drive.Request("POST", methods[s.Shape], "", hdr, rd, cl).WithContext(ctx)
	done := make(chan drive.Result, 1)
	go func() { done <- drive.Serve(mux, req) }()
	var res drive.Result
	select {
	case res = <-done:
	case <-time.After(callTimeout + 5*time.Second):
		v.Hang = true // not even the cancelled context released it
		return v, 0
	}
	if ctx.Err() == context.DeadlineExceeded {
		v.Hang = true
		return v, 0
	}
	if res.Panic != nil {
		v.Err = "panic: " + fmt.Sprint(res.Panic)
		return v, 0
	}
	dec := json.NewDecoder(bytes.NewReader(res.Rec.Body.Bytes()))
	for {
		var raw json.RawMessage
		if err := dec.Decode(&raw); err != nil {
			break
		}
		out := dynamicpb.NewMessage(world.MsgDesc("un.All"))
		if err := protojson.Unmarshal(raw, out); err != nil {
			var st spb.Status
			if protojson.Unmarshal(raw, &st) == nil {
				v.Code, v.Msg, v.Details = codes.Code(st.Code), st.Message, len(st.Details)
			}
			break
		}
		v.Replies = append(v.Replies, wire(out))
	}
	return v, res.Rec.Code
}

func sameMD(a, b map[string][]string) bool {
	if len(a) != len(b) {
		return false
	}
	for k, v := range a {
		if strings.Join(v, "\x00") != strings.Join(b[k], "\x00") {
			return false
		}
	}
	return true
}

func fmtMD(m map[string][]string) string {
	var ks []string
	for k := range m {
		ks = append(ks, k)
	}
	sort.Strings(ks)
	var sb strings.Builder
	for _, k := range ks {
		fmt.Fprintf(&sb, "%s=%q ", k, m[k])
	}
	return sb.String()
}

func Check(s Script) []evid.Violation {
	setup()
	sig := s.Front + ":" + s.Shape + ":"
	fail := func(clause, sg, f string, a ...any) []evid.Violation {
		return []evid.Violation{evid.V(clause, sig+sg, f, a...)}
	}
	// direct
	dlog := &backendLog{}
	cur.Store(&state{s, dlog})
	ds := s
	ds.Front = "grpc"
	direct := runGRPC(backend.CC, ds)
	if direct.Hang {
		return fail("harness", "direct-hang", "the direct call hung: script is not lock-step (%+v)", s)
	}
	// through larking
	plog := &backendLog{}
	cur.Store(&state{s, plog})
	var via clientView
	httpStatus := 0
	if s.Front == "http" {
		via, httpStatus = runHTTP(s)
	} else {
		real := drive.Real()
		real.Use(mux)
		via = runGRPC(real.CC, s)
	}
	time.Sleep(0)
	if via.Hang {
		return fail("hang", "proxied-call-hangs:"+s.FailPoint, "the call through larking did not finish within %v (direct: %v); backend saw %d messages, recv end %q", callTimeout, direct, len(plog.msgs), plog.recvEnd)
	}
	if strings.HasPrefix(via.Err, "panic") {
		return fail("panic", "panic", "%s", via.Err)
	}
	// backend transcript
	dlog.mu.Lock()
	plog.mu.Lock()
	defer dlog.mu.Unlock()
	defer plog.mu.Unlock()
	if dlog.ran != plog.ran {
		return fail("backend", "backend-not-called", "backend called directly=%v through larking=%v (client view %v)", dlog.ran, plog.ran, via)
	}
	compareBackendMsgs := s.FailPoint == "none" || s.FailPoint == "after-halfclose" || s.Shape == "unary" || s.Shape == "server"
	if compareBackendMsgs {
		if len(dlog.msgs) != len(plog.msgs) {
			return fail("backend", "backend-message-count", "backend received %d messages directly, %d through larking (recv end %q vs %q)", len(dlog.msgs), len(plog.msgs), dlog.recvEnd, plog.recvEnd)
		}
		for i := range dlog.msgs {
			if !bytes.Equal(dlog.msgs[i], plog.msgs[i]) {
				return fail("backend", "backend-message-differs", "backend message %d differs", i)
			}
		}
		if dlog.recvEnd != plog.recvEnd {
			return fail("backend", "backend-recv-end", "backend's receive loop ended with %q directly, %q through larking", dlog.recvEnd, plog.recvEnd)
		}
	}
	if dlog.ran && !sameMD(dlog.md, plog.md) {
		return fail("backend", "metadata-differs", "request metadata: direct {%s} through larking {%s}", fmtMD(dlog.md), fmtMD(plog.md))
	}
	// client transcript
	if s.Front == "http" {
		if len(direct.Replies) != len(via.Replies) {
			return fail("client", "http-reply-count", "direct %d replies, HTTP/JSON through larking %d", len(direct.Replies), len(via.Replies))
		}
		for i := range direct.Replies {
			if !bytes.Equal(direct.Replies[i], via.Replies[i]) {
				return fail("client", "http-reply-differs", "reply %d differs", i)
			}
		}
		// a failure after k >= 0 replies travels as a google.rpc.Status object that follows the replies
		if direct.Code != codes.OK {
			if via.Code != direct.Code || via.Msg != direct.Msg || via.Details != direct.Details {
				return fail("client", "http-status", "direct status %v %q details=%d; HTTP body status %v %q details=%d (HTTP %d)", direct.Code, direct.Msg, direct.Details, via.Code, via.Msg, via.Details, httpStatus)
			}
		}
		return nil
	}
	if len(direct.Replies) != len(via.Replies) {
		return fail("client", "reply-count", "direct: %v; through larking: %v (err %s)", direct, via, via.Err)
	}
	for i := range direct.Replies {
		if !bytes.Equal(direct.Replies[i], via.Replies[i]) {
			return fail("client", "reply-differs", "reply %d differs", i)
		}
	}
	if direct.Code != via.Code || direct.Msg != via.Msg || direct.Details != via.Details {
		return fail("client", "final-status:"+s.FailPoint, "final status direct %v %q details=%d; through larking %v %q details=%d", direct.Code, direct.Msg, direct.Details, via.Code, via.Msg, via.Details)
	}
	return nil
}

func genScript(t *rapid.T) Script {
	s := Script{FailPoint: "none"}
	s.Shape = rapid.SampledFrom([]string{"unary", "client", "server", "bidi"}).Draw(t, "shape")
	s.Front = rapid.SampledFrom([]string{"grpc", "grpc", "grpc-gzip", "http"}).Draw(t, "front")
	n := 1
	if s.Shape == "client" || s.Shape == "bidi" {
		n = rapid.IntRange(0, 5).Draw(t, "n")
	}
	for i := 0; i < n; i++ {
		prof := uni.Profile{FillProb: 20}
		if rapid.IntRange(0, 5).Draw(t, "big") == 0 {
			prof = uni.Profile{FillProb: 60, MaxBytes: 3000}
		}
		if rapid.IntRange(0, 4).Draw(t, "empty") == 0 {
			s.Msgs = append(s.Msgs, nil) // an all-default message: 0 bytes on the wire (grpc-go sends it uncompressed even on a gzip stream)
			continue
		}
		s.Msgs = append(s.Msgs, wire(uni.GenMessage(t, uni.Base().MsgDesc("un.All"), prof)))
	}
	nmd := rapid.IntRange(0, 3).Draw(t, "nmd")
	used := map[string]bool{}
	for i := 0; i < nmd; i++ {
		// most keys are plainly custom; one in four looks like a protocol header without being one
		// (grpc-go reserves an explicit list of names, not the prefix: tracing uses grpc-trace-bin)
		pfx := rapid.SampledFrom([]string{"x-", "x-", "x-", "x-", "x-", "x-", "grpc-", "grpc-trace", "content-", "te-"}).Draw(t, "kpfx")
		kv := KV{Key: pfx + rapid.StringMatching(`[a-z0-9]{1,5}`).Draw(t, "k")}
		bin := rapid.Bool().Draw(t, "bin")
		if bin {
			kv.Key += "-bin"
		}
		if kv.Key == "content-type" {
			kv.Key = "content-typex"
		}
		if used[kv.Key] {
			continue
		}
		used[kv.Key] = true
		nv := rapid.IntRange(1, 3).Draw(t, "nv")
		for j := 0; j < nv; j++ {
			if bin {
				kv.Vals = append(kv.Vals, rapid.SliceOfN(rapid.Byte(), 1, 8).Draw(t, "bv"))
			} else {
				kv.Vals = append(kv.Vals, []byte(rapid.StringMatching(`[!-~]{1,8}`).Draw(t, "v")))
			}
		}
		s.MD = append(s.MD, kv)
	}
	if s.Front == "http" {
		s.HTTPProto = rapid.IntRange(0, 2).Draw(t, "httpProto") == 0
		for i, n := 0, rapid.IntRange(0, 4).Draw(t, "nchunks"); i < n; i++ {
			s.Chunks = append(s.Chunks, rapid.IntRange(1, 40).Draw(t, "chunk"))
		}
		s.HTTP1 = rapid.SampledFrom([]string{"", "", "", "keep-alive", "keep-alive-timeout", "close", "proxy"}).Draw(t, "http1")
	}
	s.PingPong = rapid.Bool().Draw(t, "pingpong")
	s.Replies = rapid.IntRange(0, 5).Draw(t, "replies")
	if rapid.IntRange(0, 2).Draw(t, "fail") == 0 {
		s.FailPoint = rapid.SampledFrom([]string{"before-first", "after-k", "after-halfclose"}).Draw(t, "failPoint")
		if s.Shape == "unary" {
			s.FailPoint = "before-first"
		}
		if s.Shape == "server" && s.FailPoint == "after-halfclose" {
			s.FailPoint = "after-k"
		}
		s.K = rapid.IntRange(0, max(s.Replies, 0)).Draw(t, "k")
		if s.Shape == "client" && s.FailPoint == "after-k" {
			s.K = 0
		}
		s.Code = rapid.SampledFrom([]uint32{1, 2, 3, 5, 9, 13, 14, 16}).Draw(t, "code")
		if rapid.Bool().Draw(t, "msgpool") {
			s.Msg = rapid.SampledFrom([]string{"", "boom", "50% wrong", "ünïcode", "a%2Fb is locked", "%41%42 tail", "100%", "%", "%%25"}).Draw(t, "msg")
		} else {
			// percent signs before hex digits, control bytes, multi-byte runes; HTTP field values can not keep outer whitespace
			s.Msg = strings.TrimSpace(rapid.StringMatching(`[a-c%0-9A-F é€\n\t"\\]{0,10}`).Draw(t, "msgtext"))
		}
		s.Detail = rapid.Bool().Draw(t, "detail")
	}
	return s
}

func TestProp(t *testing.T) {
	rapid.Check(t, func(t *rapid.T) {
		s := genScript(t)
		vs := Check(s)
		nontriv := s.FailPoint != "none"
		cl := []string{"shape=" + s.Shape, "front=" + s.Front, "fail=" + s.FailPoint}
		if s.Shape != "unary" && (len(s.Msgs) >= 2 || s.Replies >= 2) {
			nontriv = true
			cl = append(cl, "multi-message-stream")
		}
		for _, kv := range s.MD {
			if strings.HasSuffix(kv.Key, "-bin") || len(kv.Vals) > 1 {
				nontriv = true
				cl = append(cl, "bin-or-multi-md")
			}
		}
		key := ""
		if nontriv {
			var sizes []int
			for _, m := range s.Msgs {
				sizes = append(sizes, len(m))
			}
			key = fmt.Sprintf("%s|%s|%v|%v|%v|%d|%s|%d|%d|%q|%v", s.Shape, s.Front, sizes, s.MD, s.PingPong, s.Replies, s.FailPoint, s.K, s.Code, s.Msg, s.Detail)
		}
		evid.Eval(key, cl...)
		evid.Sample(s.Shape+"/"+s.Front, map[string]any{"shape": s.Shape, "front": s.Front, "msgs": len(s.Msgs), "md": len(s.MD), "ping_pong": s.PingPong, "replies": s.Replies, "fail_point": s.FailPoint, "k": s.K, "code": s.Code})
		evid.Report(t, prop, s, vs)
	})
}

func TestReplay(t *testing.T) {
	path := os.Getenv("VERIF_REPLAY")
	if path == "" {
		t.Skip("VERIF_REPLAY not set")
	}
	var s Script
	if err := evid.LoadReplay(path, &s); err != nil {
		t.Fatal(err)
	}
	evid.Report(t, prop, s, Check(s))
}
