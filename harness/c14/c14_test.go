// C14 — metadata fidelity between HTTP headers and gRPC metadata.
package c14

import (
	"bytes"
	"context"
	"encoding/base64"
	"fmt"
	"net/http"
	"net/textproto"
	"os"
	"sort"
	"strconv"
	"strings"
	"sync"
	"testing"
	"time"

	"google.golang.org/genproto/googleapis/api/annotations"
	spb "google.golang.org/genproto/googleapis/rpc/status"
	"google.golang.org/grpc"
	"google.golang.org/grpc/codes"
	"google.golang.org/grpc/metadata"
	"google.golang.org/grpc/status"
	"google.golang.org/protobuf/proto"
	"google.golang.org/protobuf/reflect/protoreflect"
	"google.golang.org/protobuf/types/dynamicpb"
	"larking.io/larking"
	"pgregory.net/rapid"

	"verif/drive"
	"verif/dyn"
	"verif/evid"
	"verif/uni"
)

const prop = "C14"

func TestMain(m *testing.M) {
	code := m.Run()
	evid.Flush()
	os.Exit(code)
}

type KV struct {
	Key  string   `json:"key"`
	Vals [][]byte `json:"vals"`
}

type ReqHdr struct {
	Name   string   `json:"name"` // as the client spells it (mixed case)
	Vals   [][]byte `json:"vals"` // raw values (decoded form for -bin)
	Padded bool     `json:"padded"`
}

type Case struct {
	Transport    string   `json:"transport"` // grpc | grpcweb | http | grpc-real
	Req          []ReqHdr `json:"req"`
	Header       []KV     `json:"header"`
	Trailer      []KV     `json:"trailer"`
	SendHeader   bool     `json:"send_header"`  // SendHeader instead of SetHeader
	TrailerLate  bool     `json:"trailer_late"` // SetTrailer after the reply was produced (streaming methods only matter; here: before return)
	Fail         bool     `json:"fail"`
	ServerStream bool     `json:"server_stream"` // the method is server-streaming and sends Replies messages (false: unary)
	Replies      int      `json:"replies"`
	Writer       bool     `json:"writer"` // (http, server-streaming with >= 1 reply) the method replies with a google.api.HttpBody stream and the handler writes it through larking.AsHTTPBodyWriter instead of SendMsg
	Split        bool     `json:"split"`  // the handler sets its metadata one value per SetHeader/SetTrailer call (calls accumulate)
	// Reuse: what the handler does with the metadata.MD objects it hands over (grpc-go copies what it is given, so
	// both are legal). 0: nothing. 1: it goes on using them - overwrites the values in place and adds keys after
	// every SetHeader/SetTrailer/SendHeader call. 2: as 1, and its first SetTrailer call passes a long-lived MD
	// (static trailers shared by all calls); the request is served twice and the second response is the one judged.
	Reuse int `json:"reuse"`
}

const staticKey = "x-c14-static"

// effTrailer is the trailer metadata the client must see.
func (c Case) effTrailer() []KV {
	if c.Reuse == 2 {
		return append([]KV{{Key: staticKey, Vals: [][]byte{[]byte("s")}}}, c.Trailer...)
	}
	return c.Trailer
}

// scribble is what a handler that keeps using its own map does to it after the call.
func scribble(md metadata.MD) {
	for k, vs := range md {
		if len(vs) > 0 {
			vs[0] = "scribbled-after-the-call"
		}
		md[k] = append([]string{"replaced-after-the-call"}, vs...)
	}
	md["x-c14-late"] = []string{"late"}
}

var (
	worldOnce sync.Once
	world     *dyn.World
)

// nreplies is -1 for the unary method, else the number of messages the server-streaming handler sends.
func (c Case) nreplies() int {
	if !c.ServerStream {
		return -1
	}
	return c.Replies
}

func theWorld() *dyn.World {
	worldOnce.Do(func() {
		world = uni.WorldWith(dyn.Svc("C14",
			dyn.MethodSpec{Name: "Do", In: ".un.All", Out: ".un.All", Rule: &annotations.HttpRule{Pattern: &annotations.HttpRule_Post{Post: "/c14/do"}, Body: "*"}},
			dyn.MethodSpec{Name: "DoS", In: ".un.All", Out: ".un.All", ServerStream: true, Rule: &annotations.HttpRule{Pattern: &annotations.HttpRule_Post{Post: "/c14/dos"}, Body: "*"}},
			dyn.MethodSpec{Name: "Down", In: ".un.All", Out: ".google.api.HttpBody", ServerStream: true, Rule: &annotations.HttpRule{Pattern: &annotations.HttpRule_Post{Post: "/c14/down"}, Body: "*"}},
		))
	})
	return world
}

var reserved = map[string]bool{"content-type": true, "grpc-status": true, "grpc-message": true, "grpc-encoding": true, "grpc-status-details-bin": true, "grpc-timeout": true,
	"user-agent": true, "grpc-message-type": true, "te": true, "grpc-accept-encoding": true, "content-length": true,
	// "Trailer" is how net/http announces trailers: metadata of that name shares the field with the
	// protocol's own announcement, so its value can not be transported exactly - but it must not displace
	// the status either
	"trailer": true}

func toMD(kvs []KV) metadata.MD {
	md := metadata.MD{}
	for _, kv := range kvs {
		for _, v := range kv.Vals {
			md.Append(kv.Key, string(v))
		}
	}
	return md
}

// inCalls delivers the metadata either in one call or, when split, one value
// per call (gRPC merges the metadata of successive calls, values in order).
func inCalls(split bool, kvs []KV, set0 func(metadata.MD), reuse int) {
	set := func(md metadata.MD) {
		set0(md)
		if reuse > 0 {
			scribble(md)
		}
	}
	if !split {
		set(toMD(kvs))
		return
	}
	n := 0
	for _, kv := range kvs {
		for _, v := range kv.Vals {
			set(metadata.MD{strings.ToLower(kv.Key): []string{string(v)}})
			n++
		}
	}
	if n == 0 {
		set(metadata.MD{})
	}
}

const failMsg = "real failure"
const writerType = "application/x-c14"

type seen struct {
	md  metadata.MD
	ran bool
}

func newMux(c Case, s *seen) *larking.Mux {
	w := theWorld()
	mux, err := larking.NewMux(larking.FilesOption(w.Files))
	if err != nil {
		panic(err)
	}
	// long-lived trailer metadata of the service (Reuse == 2): passed to SetTrailer by every call, never written by the handler
	static := metadata.Pairs(staticKey, "s")
	unary := func(ctx context.Context, fm string, req *dynamicpb.Message) (proto.Message, error) {
		s.ran = true
		s.md, _ = metadata.FromIncomingContext(ctx)
		setTrailer := func() {
			if c.Reuse == 2 {
				grpc.SetTrailer(ctx, static)
			}
			inCalls(c.Split, c.Trailer, func(md metadata.MD) { grpc.SetTrailer(ctx, md) }, c.Reuse)
		}
		if !c.TrailerLate {
			setTrailer()
		}
		switch {
		case c.SendHeader && !c.Split:
			inCalls(false, c.Header, func(md metadata.MD) { grpc.SendHeader(ctx, md) }, c.Reuse)
		case c.SendHeader:
			inCalls(true, c.Header, func(md metadata.MD) { grpc.SetHeader(ctx, md) }, c.Reuse)
			grpc.SendHeader(ctx, metadata.MD{})
		default:
			inCalls(c.Split, c.Header, func(md metadata.MD) { grpc.SetHeader(ctx, md) }, c.Reuse)
		}
		if c.TrailerLate {
			setTrailer()
		}
		if c.Fail {
			return nil, status.Error(codes.FailedPrecondition, failMsg)
		}
		return dynamicpb.NewMessage(req.Descriptor()), nil
	}
	stream := func(full string, in, out protoreflect.MessageDescriptor, ss grpc.ServerStream) error {
		if err := ss.RecvMsg(dynamicpb.NewMessage(in)); err != nil {
			return err
		}
		s.ran = true
		s.md, _ = metadata.FromIncomingContext(ss.Context())
		setTrailer := func() {
			if c.Reuse == 2 {
				ss.SetTrailer(static)
			}
			inCalls(c.Split, c.Trailer, func(md metadata.MD) { ss.SetTrailer(md) }, c.Reuse)
		}
		if !c.TrailerLate {
			setTrailer()
		}
		switch {
		case c.SendHeader && !c.Split:
			inCalls(false, c.Header, func(md metadata.MD) { ss.SendHeader(md) }, c.Reuse)
		case c.SendHeader:
			inCalls(true, c.Header, func(md metadata.MD) { ss.SetHeader(md) }, c.Reuse)
			ss.SendHeader(metadata.MD{})
		default:
			inCalls(c.Split, c.Header, func(md metadata.MD) { ss.SetHeader(md) }, c.Reuse)
		}
		if c.Writer {
			// the raw download path: the first message (content type) and then plain bytes
			head := dynamicpb.NewMessage(out)
			head.Set(out.Fields().ByName("content_type"), protoreflect.ValueOfString(writerType))
			wr, err := larking.AsHTTPBodyWriter(ss, head)
			if err != nil {
				return err
			}
			for i := 0; i < c.nreplies(); i++ {
				if _, err := wr.Write([]byte("chunk")); err != nil {
					return err
				}
			}
		} else {
			for i := 0; i < c.nreplies(); i++ {
				if err := ss.SendMsg(dynamicpb.NewMessage(out)); err != nil {
					return err
				}
			}
		}
		if c.TrailerLate {
			setTrailer()
		}
		if c.Fail {
			return status.Error(codes.FailedPrecondition, failMsg)
		}
		return nil
	}
	if err := mux.VerifRegisterService(w.ServiceDesc("un.C14", unary, stream), nil); err != nil {
		panic(err)
	}
	return mux
}

func encBin(b []byte, padded bool) string {
	if padded {
		return base64.StdEncoding.EncodeToString(b)
	}
	return base64.RawStdEncoding.EncodeToString(b)
}

func decBin(s string) ([]byte, error) {
	if len(s)%4 == 0 {
		return base64.StdEncoding.DecodeString(s)
	}
	return base64.RawStdEncoding.DecodeString(s)
}

// observed returns client-side header and trailer maps keyed by lower-case
// name with raw (still encoded) values.
type observed struct {
	header, trailer map[string][]string
	status          int
	body            []byte
}

func lower(h http.Header) map[string][]string {
	out := map[string][]string{}
	for k, v := range h {
		k = strings.ToLower(strings.TrimPrefix(k, http.TrailerPrefix))
		out[k] = append(out[k], v...)
	}
	return out
}

func Check(c Case) []evid.Violation {
	sig := c.Transport + ":"
	fail := func(clause, s, f string, a ...any) []evid.Violation {
		return []evid.Violation{evid.V(clause, sig+s, f, a...)}
	}
	s := &seen{}
	mux := newMux(c, s)
	var obs observed
	webTrailersOnly := false
	trueCode := 0
	if c.Fail {
		trueCode = int(codes.FailedPrecondition)
	}

	if c.Transport == "grpc-real" {
		return checkReal(c, mux, s, fail)
	}
	hdr := http.Header{}
	for _, h := range c.Req {
		k := textproto.CanonicalMIMEHeaderKey(h.Name)
		for _, v := range h.Vals {
			if strings.HasSuffix(strings.ToLower(h.Name), "-bin") {
				hdr[k] = append(hdr[k], encBin(v, h.Padded))
			} else {
				hdr[k] = append(hdr[k], string(v))
			}
		}
	}
	var res drive.Result
	rounds := 1
	if c.Reuse == 2 {
		rounds = 2 // the first response only warms the service up
	}
	for round := 0; round < rounds; round++ {
		*s = seen{}
		frame := drive.GRPCFrame(nil, false)
		method, route := "/un.C14/Do", "/c14/do"
		if c.nreplies() >= 0 {
			method, route = "/un.C14/DoS", "/c14/dos"
		}
		if c.Writer {
			method, route = "/un.C14/Down", "/c14/down"
		}
		switch c.Transport {
		case "grpc":
			res = drive.Serve(mux, drive.GRPCRequest(method, hdr, bytes.NewReader(frame), "application/grpc"))
		case "grpcweb":
			hdr.Set("Content-Type", "application/grpc-web+proto")
			res = drive.Serve(mux, drive.Request("POST", method, "", hdr, bytes.NewReader(frame), -1))
		case "http":
			hdr.Set("Content-Type", "application/json")
			res = drive.Serve(mux, drive.Request("POST", route, "", hdr, bytes.NewReader([]byte("{}")), 2))
		}
		if res.Panic != nil {
			break
		}
	}
	if res.Panic != nil {
		return fail("panic", res.PanicSig(), "panic: %v", res.Panic)
	}
	if !s.ran {
		return fail("dispatch", "not-dispatched", "handler did not run: status %d %q", res.Rec.Code, res.Rec.Body.String())
	}
	obs.status, obs.body = res.Rec.Code, res.Rec.Body.Bytes()
	obs.header = lower(res.Hdr)
	obs.trailer = lower(res.Trailer)
	if c.Transport == "grpcweb" {
		frames, err := drive.ParseFrames(obs.body)
		if err != nil {
			return fail("response", "web-frames", "frames: %v", err)
		}
		found := false
		for _, f := range frames {
			if f.Flag&0x80 != 0 {
				tr, err := drive.ParseWebTrailer(f.Payload)
				if err != nil {
					return fail("response", "web-trailer", "trailer frame: %v", err)
				}
				obs.trailer = tr
				found = true
			}
		}
		if !found {
			obs.trailer = obs.header // trailers-only
			webTrailersOnly = true
		}
	}

	// ---- inbound ----
	for _, h := range c.Req {
		k := strings.ToLower(h.Name)
		got := s.md.Get(k)
		if len(got) != len(h.Vals) {
			return fail("inbound", "inbound-count", "request header %q: handler sees %d values %q, sent %d", h.Name, len(got), got, len(h.Vals))
		}
		for i, v := range h.Vals {
			if got[i] != string(v) {
				what := "inbound-value"
				if strings.HasSuffix(k, "-bin") {
					what = "inbound-bin"
					if h.Padded {
						what = "inbound-bin-padded"
					}
				}
				return fail("inbound", what, "request header %q value %d: handler sees %q, sent %q (padded=%v)", h.Name, i, got[i], v, h.Padded)
			}
		}
	}

	// ---- outbound ----
	checkOut := func(kind string, kvs []KV, where map[string][]string) []evid.Violation {
		want := map[string][][]byte{}
		for _, kv := range kvs {
			if reserved[kv.Key] {
				continue
			}
			want[kv.Key] = append(want[kv.Key], kv.Vals...)
		}
		var keys []string
		for k := range want {
			keys = append(keys, k)
		}
		sort.Strings(keys)
		for _, k := range keys {
			got := where[k]
			if len(got) != len(want[k]) {
				return fail("outbound", "outbound-"+kind+"-missing", "%s %q: client sees %d values %q, handler set %d (fail=%v sendHeader=%v)", kind, k, len(got), got, len(want[k]), c.Fail, c.SendHeader)
			}
			for i, v := range want[k] {
				g := []byte(got[i])
				if strings.HasSuffix(k, "-bin") {
					d, err := decBin(got[i])
					if err != nil {
						return fail("outbound", "outbound-bin-undecodable", "%s %q value %q is not base64: %v", kind, k, got[i], err)
					}
					g = d
				}
				if !bytes.Equal(g, v) {
					return fail("outbound", "outbound-"+kind+"-value", "%s %q value %d: client sees %q, handler set %q", kind, k, i, g, v)
				}
			}
		}
		return nil
	}
	trailer := c.effTrailer()
	wantHeader, wantTrailer := c.Header, trailer
	if c.Transport == "grpcweb" && webTrailersOnly {
		// one block for both: a key used as header and as trailer carries the header's values
		// followed by the trailer's (nothing the handler set may be lost)
		merged := append(append([]KV{}, c.Header...), trailer...)
		shared := map[string]bool{}
		hk := map[string]bool{}
		for _, kv := range c.Header {
			hk[kv.Key] = true
		}
		for _, kv := range trailer {
			shared[kv.Key] = hk[kv.Key]
		}
		pick := func(kvs []KV) []KV {
			var out []KV
			for _, kv := range kvs {
				if !shared[kv.Key] {
					out = append(out, kv)
				}
			}
			for _, kv := range merged {
				if shared[kv.Key] {
					out = append(out, kv)
				}
			}
			return out
		}
		wantHeader, wantTrailer = pick(c.Header), pick(trailer)
	}
	if vs := checkOut("header", wantHeader, obs.header); vs != nil {
		return vs
	}
	if c.Transport != "http" {
		if vs := checkOut("trailer", wantTrailer, obs.trailer); vs != nil {
			return vs
		}
	}

	// ---- reserved keys cannot be forged ----
	switch c.Transport {
	case "grpc", "grpcweb":
		if got := first(obs.trailer["grpc-status"]); got != strconv.Itoa(trueCode) {
			return fail("reserved", "forged-grpc-status", "grpc-status %q, true status %d (handler metadata: header %v trailer %v)", got, trueCode, keys(c.Header), keys(c.Trailer))
		}
		wantMsg := ""
		if c.Fail {
			wantMsg = failMsg
		}
		if got := first(obs.trailer["grpc-message"]); got != wantMsg || len(obs.trailer["grpc-message"]) > 1 {
			return fail("reserved", "forged-grpc-message", "grpc-message %q, true message %q", obs.trailer["grpc-message"], wantMsg)
		}
		if d := obs.trailer["grpc-status-details-bin"]; len(d) > 0 {
			// the true status has no details: any value here was forged
			return fail("reserved", "forged-status-details", "grpc-status-details-bin %q although the true status has no details", d)
		}
		wantCT := "application/grpc"
		if c.Transport == "grpcweb" {
			wantCT = "application/grpc-web+proto"
		}
		if got := first(obs.header["content-type"]); got != wantCT || len(obs.header["content-type"]) != 1 {
			return fail("reserved", "forged-content-type", "content-type %q want %q", obs.header["content-type"], wantCT)
		}
		if got := obs.header["grpc-encoding"]; len(got) > 0 && got[0] != "identity" {
			return fail("reserved", "forged-grpc-encoding", "grpc-encoding %q on an uncompressed response", got)
		}
	case "http":
		wantStatus := 200
		if c.Fail && c.nreplies() <= 0 {
			wantStatus = 400 // once a reply was sent the status line can not change any more
		}
		if obs.status != wantStatus {
			return fail("reserved", "http-status", "HTTP status %d want %d", obs.status, wantStatus)
		}
		if c.nreplies() == 0 && !c.Fail && len(obs.body) == 0 && len(obs.header["content-type"]) == 0 {
			// an empty stream has no body and therefore needs no content type
		} else if c.Writer {
			if got := first(obs.header["content-type"]); got != writerType || len(obs.header["content-type"]) != 1 {
				return fail("reserved", "forged-content-type", "content-type %q want %s (HttpBody stream)", obs.header["content-type"], writerType)
			}
			if want := strings.Repeat("chunk", c.nreplies()); !strings.HasPrefix(string(obs.body), want) {
				return fail("response", "writer-body", "HttpBody stream body %q does not start with %q", obs.body, want)
			}
		} else if got := first(obs.header["content-type"]); got != "application/json" || len(obs.header["content-type"]) != 1 {
			return fail("reserved", "forged-content-type", "content-type %q want application/json", obs.header["content-type"])
		}
	}
	return nil
}

func first(v []string) string {
	if len(v) == 0 {
		return ""
	}
	return v[0]
}

func keys(kvs []KV) []string {
	var out []string
	for _, kv := range kvs {
		out = append(out, kv.Key)
	}
	return out
}

func checkReal(c Case, mux http.Handler, s *seen, fail func(clause, s, f string, a ...any) []evid.Violation) []evid.Violation {
	real := drive.Real()
	real.Use(mux)
	ctx, cancel := context.WithTimeout(context.Background(), 10*time.Second)
	defer cancel()
	out := metadata.MD{}
	for _, h := range c.Req {
		for _, v := range h.Vals {
			out.Append(h.Name, string(v))
		}
	}
	ctx = metadata.NewOutgoingContext(ctx, out)
	w := theWorld()
	var hmd, tmd metadata.MD
	err := real.CC.Invoke(ctx, "/un.C14/Do", dynamicpb.NewMessage(w.MsgDesc("un.All")), dynamicpb.NewMessage(w.MsgDesc("un.All")), grpc.Header(&hmd), grpc.Trailer(&tmd))
	if ctx.Err() != nil {
		return fail("timeout", "grpc-timeout", "call did not finish: %v", err)
	}
	if !s.ran {
		return fail("dispatch", "not-dispatched", "handler did not run: %v", err)
	}
	for _, h := range c.Req {
		k := strings.ToLower(h.Name)
		got := s.md.Get(k)
		if len(got) != len(h.Vals) {
			return fail("inbound", "inbound-count", "metadata %q: handler sees %q, sent %d values", k, got, len(h.Vals))
		}
		for i, v := range h.Vals {
			if got[i] != string(v) {
				return fail("inbound", "inbound-value", "metadata %q value %d: handler sees %q, sent %q", k, i, got[i], v)
			}
		}
	}
	cmp := func(kind string, kvs []KV, got metadata.MD) []evid.Violation {
		want := map[string][]string{}
		for _, kv := range kvs {
			if reserved[kv.Key] {
				continue
			}
			for _, v := range kv.Vals {
				want[kv.Key] = append(want[kv.Key], string(v))
			}
		}
		for k, vs := range want {
			g := got.Get(k)
			if len(g) != len(vs) {
				return fail("outbound", "outbound-"+kind+"-missing", "%s %q: grpc-go client sees %q, handler set %q (fail=%v)", kind, k, g, vs, c.Fail)
			}
			for i := range vs {
				if g[i] != vs[i] {
					return fail("outbound", "outbound-"+kind+"-value", "%s %q value %d: client sees %q, handler set %q", kind, k, i, g[i], vs[i])
				}
			}
		}
		return nil
	}
	if vs := cmp("header", c.Header, hmd); vs != nil {
		return vs
	}
	if vs := cmp("trailer", c.Trailer, tmd); vs != nil {
		return vs
	}
	st, _ := status.FromError(err)
	wantCode := codes.OK
	wantMsg := ""
	if c.Fail {
		wantCode, wantMsg = codes.FailedPrecondition, failMsg
	}
	if st.Code() != wantCode || st.Message() != wantMsg || len(st.Proto().GetDetails()) != 0 {
		return fail("reserved", "forged-status", "grpc-go client status %v %q details=%d, true status %v %q without details (handler metadata header %v trailer %v)",
			st.Code(), st.Message(), len(st.Proto().GetDetails()), wantCode, wantMsg, keys(c.Header), keys(c.Trailer))
	}
	return nil
}

// ---------------------------------------------------------------------------

var forged = func() []byte {
	b, _ := proto.Marshal(&spb.Status{Code: 16, Message: "forged"})
	return b
}()

func genKVs(t *rapid.T, label string) []KV {
	n := rapid.IntRange(0, 4).Draw(t, label+"n")
	var out []KV
	used := map[string]bool{}
	for i := 0; i < n; i++ {
		var kv KV
		switch rapid.IntRange(0, 9).Draw(t, label+"kind") {
		case 0, 1: // reserved
			kv.Key = rapid.SampledFrom([]string{"content-type", "grpc-status", "grpc-message", "grpc-encoding", "grpc-status-details-bin", "grpc-timeout", "trailer"}).Draw(t, label+"rk")
			switch kv.Key {
			case "grpc-status":
				kv.Vals = [][]byte{[]byte(rapid.SampledFrom([]string{"0", "16", "2"}).Draw(t, label+"rv"))}
			case "grpc-status-details-bin":
				kv.Vals = [][]byte{forged}
			case "content-type":
				kv.Vals = [][]byte{[]byte("text/evil")}
			case "grpc-encoding":
				kv.Vals = [][]byte{[]byte("gzip")}
			default:
				kv.Vals = [][]byte{[]byte("forged")}
			}
		case 2, 3, 4: // binary
			kv.Key = "x-" + rapid.StringMatching(`[a-z0-9_.]{1,6}`).Draw(t, label+"bk") + "-bin"
			if rapid.IntRange(0, 4).Draw(t, label+"nearb") == 0 {
				kv.Key = rapid.SampledFrom([]string{"grpc-trace-bin", "grpc-tags-bin", "grpc-custom-bin"}).Draw(t, label+"nbk")
			}
			nv := rapid.IntRange(1, 2).Draw(t, label+"bn")
			for j := 0; j < nv; j++ {
				kv.Vals = append(kv.Vals, rapid.SliceOfN(rapid.Byte(), 0, 9).Draw(t, label+"bv"))
			}
		default:
			kv.Key = "x-" + rapid.StringMatching(`[a-z0-9_.-]{1,8}`).Draw(t, label+"k")
			if rapid.IntRange(0, 4).Draw(t, label+"near") == 0 {
				// names that look like protocol headers without being reserved (the reserved set is a list of
				// names, not a prefix): they are ordinary metadata
				kv.Key = rapid.SampledFrom([]string{"grpc-custom", "grpc-trace", "grpc-statusx", "grpc-status-details", "grpc-messages", "content-typex", "x-grpc-status", "tex", "grpc-previous"}).Draw(t, label+"nk")
			}
			if strings.HasSuffix(kv.Key, "-bin") {
				kv.Key += "x"
			}
			nv := rapid.IntRange(1, 3).Draw(t, label+"nv")
			for j := 0; j < nv; j++ {
				kv.Vals = append(kv.Vals, []byte(rapid.StringMatching(`[!-~]([ -~]{0,10}[!-~])?`).Draw(t, label+"v")))
			}
		}
		if used[kv.Key] {
			continue
		}
		used[kv.Key] = true
		out = append(out, kv)
	}
	return out
}

func genCase(t *rapid.T, transports []string) Case {
	c := Case{Transport: rapid.SampledFrom(transports).Draw(t, "transport")}
	n := rapid.IntRange(0, 3).Draw(t, "nreq")
	used := map[string]bool{}
	for i := 0; i < n; i++ {
		var h ReqHdr
		bin := rapid.Bool().Draw(t, "bin")
		h.Name = rapid.StringMatching(`[Xx]-[A-Za-z][A-Za-z0-9]{0,6}`).Draw(t, "name")
		if rapid.IntRange(0, 4).Draw(t, "nearName") == 0 {
			h.Name = rapid.SampledFrom([]string{"Grpc-Custom", "grpc-trace", "Grpc-Tags", "grpc-statusx", "Content-Typex", "Tex", "Grpc-Previous"}).Draw(t, "nn")
		}
		if c.Transport == "grpc-real" {
			h.Name = strings.ToLower(h.Name)
		}
		if bin {
			h.Name += rapid.SampledFrom([]string{"-bin", "-Bin", "-BIN"}).Draw(t, "binsuffix")
			if c.Transport == "grpc-real" {
				h.Name = strings.ToLower(h.Name)
			}
			h.Padded = rapid.Bool().Draw(t, "padded")
		} else if strings.HasSuffix(strings.ToLower(h.Name), "-bin") {
			h.Name += "x"
		}
		if used[strings.ToLower(h.Name)] {
			continue
		}
		used[strings.ToLower(h.Name)] = true
		nv := rapid.IntRange(1, 3).Draw(t, "nv")
		for j := 0; j < nv; j++ {
			if bin {
				h.Vals = append(h.Vals, rapid.SliceOfN(rapid.Byte(), 1, 10).Draw(t, "bv"))
			} else {
				h.Vals = append(h.Vals, []byte(rapid.StringMatching(`[!-~]([ -~]{0,10}[!-~])?`).Draw(t, "v")))
			}
		}
		c.Req = append(c.Req, h)
	}
	c.Fail = rapid.Bool().Draw(t, "fail")
	if k := rapid.SampledFrom([]int{-1, -1, 0, 1, 2}).Draw(t, "stream"); k >= 0 && c.Transport != "grpc-real" {
		c.ServerStream, c.Replies = true, k
		c.Writer = c.Transport == "http" && k >= 1 && rapid.IntRange(0, 2).Draw(t, "writer") == 0
	}
	// a response without any message is trailers-only as well
	trailersOnly := c.Fail && c.nreplies() <= 0 || c.nreplies() == 0
	c.Header = genKVs(t, "h")
	// In a trailers-only response (failing unary RPC) there is a single header
	// block in which equal keys necessarily merge, so header and trailer keys
	// are kept disjoint there; a successful RPC may reuse a header key as a
	// trailer key (often, to make that case frequent).
	hk := map[string]bool{}
	for _, kv := range c.Header {
		hk[kv.Key] = true
	}
	for _, kv := range genKVs(t, "t") {
		if !trailersOnly || c.Transport == "grpcweb" || c.Transport == "http" || !hk[kv.Key] || reserved[kv.Key] {
			c.Trailer = append(c.Trailer, kv)
		}
	}
	if (!trailersOnly || c.Transport == "grpcweb" || c.Transport == "http") && len(c.Header) > 0 && rapid.IntRange(0, 2).Draw(t, "reuseKey") == 0 {
		src := c.Header[rapid.IntRange(0, len(c.Header)-1).Draw(t, "reuseIdx")]
		if !reserved[src.Key] {
			dup := false
			for _, kv := range c.Trailer {
				dup = dup || kv.Key == src.Key
			}
			if !dup {
				kv := KV{Key: src.Key}
				for _, v := range src.Vals {
					kv.Vals = append(kv.Vals, append([]byte("t:"), v...))
				}
				c.Trailer = append(c.Trailer, kv)
			}
		}
	}
	c.SendHeader = rapid.Bool().Draw(t, "sendHeader")
	c.Split = rapid.IntRange(0, 2).Draw(t, "split") == 0
	c.TrailerLate = rapid.Bool().Draw(t, "trailerLate")
	c.Reuse = rapid.SampledFrom([]int{0, 0, 1, 2}).Draw(t, "reuse")
	if c.Reuse == 2 && c.Transport == "grpc-real" {
		c.Reuse = 1
	}
	return c
}

func record(c Case) {
	nontriv := c.Fail
	cl := []string{"transport=" + c.Transport}
	for _, h := range c.Req {
		if strings.HasSuffix(strings.ToLower(h.Name), "-bin") {
			for _, v := range h.Vals {
				if len(v)%3 != 0 {
					nontriv = true
					cl = append(cl, "req-bin-needs-padding")
					if h.Padded {
						cl = append(cl, "req-bin-padded")
					}
				}
			}
		}
		if len(h.Vals) > 1 {
			nontriv = true
			cl = append(cl, "req-multi-valued")
		}
	}
	for _, kvs := range [][]KV{c.Header, c.Trailer} {
		for _, kv := range kvs {
			if reserved[kv.Key] {
				nontriv = true
				cl = append(cl, "reserved-key")
			}
			if len(kv.Vals) > 1 {
				nontriv = true
			}
			if strings.HasSuffix(kv.Key, "-bin") {
				cl = append(cl, "out-bin")
			}
		}
	}
	if c.Fail {
		cl = append(cl, "failing-rpc")
	}
	if c.Writer {
		cl = append(cl, "httpbody-stream-through-AsHTTPBodyWriter")
	}
	if c.Reuse > 0 {
		nontriv = true
		cl = append(cl, fmt.Sprintf("handler-keeps-using-its-metadata-%d", c.Reuse))
	}
	key := ""
	if nontriv {
		key = fmt.Sprintf("%s|%v|%v|%v|%v|%v|%v|%v|%d", c.Transport, c.Req, c.Header, c.Trailer, c.SendHeader, c.TrailerLate, c.Fail, c.Split, c.nreplies()) + fmt.Sprint(c.Writer, c.Reuse)
	}
	evid.Eval(key, cl...)
}

func TestProp(t *testing.T) {
	rapid.Check(t, func(t *rapid.T) {
		c := genCase(t, []string{"grpc", "grpcweb", "http"})
		vs := Check(c)
		record(c)
		evid.Sample(c.Transport, c)
		evid.Report(t, prop, c, vs)
	})
}

func TestPropReal(t *testing.T) {
	rapid.Check(t, func(t *rapid.T) {
		c := genCase(t, []string{"grpc-real"})
		vs := Check(c)
		record(c)
		evid.Sample(c.Transport, c)
		evid.Report(t, prop, c, vs)
	})
}

func TestReplay(t *testing.T) {
	path := os.Getenv("VERIF_REPLAY")
	if path == "" {
		t.Skip("VERIF_REPLAY not set")
	}
	var c Case
	if err := evid.LoadReplay(path, &c); err != nil {
		t.Fatal(err)
	}
	evid.Report(t, prop, c, Check(c))
}
