// C12 — registration is atomic with respect to concurrent serving.
package c12

import (
	"bytes"
	"context"
	"fmt"
	"google.golang.org/grpc"
	"google.golang.org/grpc/credentials/insecure"
	"google.golang.org/grpc/reflection"
	rpb "google.golang.org/grpc/reflection/grpc_reflection_v1alpha"
	"google.golang.org/protobuf/reflect/protoregistry"
	"net"
	"net/http"
	"os"
	"runtime"
	"strings"
	"sync"
	"sync/atomic"
	"testing"
	"time"

	"larking.io/larking"
	"pgregory.net/rapid"

	"verif/drive"
	"verif/dyn"
	"verif/evid"
	"verif/fixture"
)

const prop = "C12"

func TestMain(m *testing.M) {
	code := m.Run()
	evid.Flush()
	os.Exit(code)
}

var cnt atomic.Int64

// ---------------------------------------------------------------------------
// (a) deterministic snapshot-immutability monitor

type SCase struct {
	Ops []string `json:"ops"` // local | multi-ok | multi-bad | conn:B1.. | drop:B1.. | alter:B3
}

var opPool = []string{"local", "multi-ok", "multi-bad", "multi-bad", "multi-bad-s", "conn-bad", "conn-badrule", "conn:B1", "conn:B2", "conn:B3", "drop:B1", "drop:B2", "drop:B3", "alter:B3"}

var probePaths = []string{"/fx/multibads/m1", "/fx/multibads/m2/x", "/un.MultiBadS/M1", "/fx/svca", "/fx/svcb", "/fx/svcc", "/fx/svcd", "/fx/svce", "/fx/multiok/m1", "/fx/multiok/m2/x", "/fx/multiok/m3", "/fx/multibad/m1", "/fx/multibad/m2/x", "/un.MultiBad/M1", "/un.SvcA/Ping"}

func probeAll(mux http.Handler) []int {
	out := make([]int, len(probePaths))
	for i, p := range probePaths {
		// status only: which of several owners answers is random by design
		out[i] = drive.Serve(mux, drive.Request("GET", p, "", nil, nil, 0)).Rec.Code
	}
	return out
}

type sinfo struct{ failed, snaps int }

var (
	noReflOnce sync.Once
	noReflCC   *grpc.ClientConn
)

// noRefl is a connection to a live gRPC server that has no reflection service:
// RegisterConn on it fails after it has started its work.
func noRefl() *grpc.ClientConn {
	noReflOnce.Do(func() {
		srv := grpc.NewServer()
		ln, err := net.Listen("tcp", "127.0.0.1:0")
		if err != nil {
			panic(err)
		}
		go srv.Serve(ln)
		noReflCC, err = grpc.NewClient(ln.Addr().String(), grpc.WithTransportCredentials(insecure.NewCredentials()))
		if err != nil {
			panic(err)
		}
	})
	return noReflCC
}

var (
	badRuleOnce sync.Once
	badRuleCC   *grpc.ClientConn
)

// badRule is a connection to a live backend WITH reflection that serves un.MultiBad, whose last
// method carries a rule naming an unknown field: RegisterConn fails at the rule level, after the
// reflection exchange and after the valid methods of the service were processed.
func badRule() *grpc.ClientConn {
	badRuleOnce.Do(func() {
		fixture.Setup()
		srv := grpc.NewServer()
		srv.RegisterService(fixture.MultiDesc("MultiBad", &cnt), nil)
		rpb.RegisterServerReflectionServer(srv, reflection.NewServer(reflection.ServerOptions{
			Services: srv, DescriptorResolver: dyn.Resolver(fixture.World.Files), ExtensionResolver: protoregistry.GlobalTypes}))
		ln, err := net.Listen("tcp", "127.0.0.1:0")
		if err != nil {
			panic(err)
		}
		go srv.Serve(ln)
		badRuleCC, err = grpc.NewClient(ln.Addr().String(), grpc.WithTransportCredentials(insecure.NewCredentials()))
		if err != nil {
			panic(err)
		}
	})
	return badRuleCC
}

var errBlocked = fmt.Errorf("operation did not return within 15 s")

// apply runs the operation; one that does not return (a registration lock that was
// never released, say) is reported as errBlocked instead of hanging the checker.
func apply(mux *larking.Mux, op string) (err error, pnc any) {
	type res struct {
		err error
		pnc any
	}
	ch := make(chan res, 1)
	go func() {
		e, p := applyNow(mux, op)
		ch <- res{e, p}
	}()
	select {
	case r := <-ch:
		return r.err, r.pnc
	case <-time.After(15 * time.Second):
		return errBlocked, nil
	}
}

func applyNow(mux *larking.Mux, op string) (err error, pnc any) {
	defer func() { pnc = recover() }()
	ctx, cancel := context.WithTimeout(context.Background(), 20*time.Second)
	defer cancel()
	kind, target, _ := strings.Cut(op, ":")
	switch kind {
	case "local":
		return mux.VerifRegisterService(fixture.LocalDesc(), nil), nil
	case "multi-ok":
		return mux.VerifRegisterService(fixture.MultiDesc("MultiOK", &cnt), nil), nil
	case "multi-bad":
		return mux.VerifRegisterService(fixture.MultiDesc("MultiBad", &cnt), nil), nil
	case "multi-bad-s":
		return mux.VerifRegisterService(fixture.MultiDesc("MultiBadS", &cnt), nil), nil
	case "conn":
		return mux.RegisterConn(ctx, fixture.Backends[target].CC), nil
	case "conn-bad":
		return mux.RegisterConn(ctx, noRefl()), nil
	case "conn-badrule":
		return mux.RegisterConn(ctx, badRule()), nil
	case "drop":
		mux.DropConn(ctx, fixture.Backends[target].CC)
	case "alter":
		b := fixture.Backends[target]
		b.Alt.Store(!b.Alt.Load())
	}
	return nil, nil
}

func CheckSnapshots(c SCase) ([]evid.Violation, sinfo) {
	fixture.Setup()
	fixture.Backends["B3"].Alt.Store(false)
	var in sinfo
	mux, err := larking.NewMux(larking.FilesOption(fixture.World.Files))
	if err != nil {
		panic(err)
	}
	type snap struct {
		s    any
		fp   string
		step int
	}
	var snaps []snap
	fail := func(step int, clause, sig, f string, a ...any) ([]evid.Violation, sinfo) {
		return []evid.Violation{evid.V(clause, "snapshot:"+sig, "ops %v, step %d (%s): %s", c.Ops[:step+1], step, c.Ops[step], fmt.Sprintf(f, a...))}, in
	}
	for step, op := range c.Ops {
		before := mux.VerifSnapshot()
		snaps = append(snaps, snap{before, larking.VerifFingerprint(before), step})
		in.snaps = len(snaps)
		probesBefore := probeAll(mux)
		err, pnc := apply(mux, op)
		if pnc != nil {
			return fail(step, "panic", "panic", "panicked: %v", pnc)
		}
		if err == errBlocked {
			return fail(step, "operation-blocked", "operation-blocked", "%v (an earlier failed operation left the mux unable to register or remove anything)", err)
		}
		for _, sn := range snaps {
			if fp := larking.VerifFingerprint(sn.s); fp != sn.fp {
				return fail(step, "published-state-mutated", "published-state-mutated:"+strings.SplitN(op, ":", 2)[0], "the snapshot published before step %d was mutated in place:\n--- was\n%s\n--- now\n%s", sn.step, sn.fp, fp)
			}
		}
		if err != nil {
			in.failed++
			if after := mux.VerifSnapshot(); after != before {
				return fail(step, "failed-op-published", "failed-op-published", "operation failed (%v) but a new state was published", err)
			}
			probesAfter := probeAll(mux)
			for i := range probesBefore {
				if probesBefore[i] != probesAfter[i] {
					return fail(step, "failed-op-observable", "failed-op-observable", "operation failed (%v) but GET %s changed from %d to %d", err, probePaths[i], probesBefore[i], probesAfter[i])
				}
			}
		} else if op == "multi-bad" || op == "multi-bad-s" || op == "conn-bad" || op == "conn-badrule" {
			return fail(step, "harness", "multi-bad-accepted", "%s registration unexpectedly succeeded", op)
		}
	}
	return nil, in
}

func TestPropSnapshots(t *testing.T) {
	rapid.Check(t, func(t *rapid.T) {
		n := rapid.IntRange(2, 10).Draw(t, "n")
		var c SCase
		for i := 0; i < n; i++ {
			c.Ops = append(c.Ops, rapid.SampledFrom(opPool).Draw(t, "op"))
		}
		vs, in := CheckSnapshots(c)
		key := ""
		if in.failed >= 1 && in.snaps >= 2 {
			key = "s|" + strings.Join(c.Ops, ",")
		}
		cl := []string{"snapshot-monitor"}
		if in.failed > 0 {
			cl = append(cl, "has-failing-op")
		}
		evid.Eval(key, cl...)
		evid.Sample("snapshots", c)
		evid.Report(t, prop, map[string]any{"kind": "snapshots", "snapshots": c}, vs)
	})
}

// ---------------------------------------------------------------------------
// (b) seeded stress (meant to be built with -race)

type Plan struct {
	Readers   int      `json:"readers"`
	WriterOps []string `json:"writer_ops"` // executed by writer 1 in order
	ConnOps   []string `json:"conn_ops"`   // executed by writer 2 in order
	Conn2Ops  []string `json:"conn2_ops"`  // executed by a third writer in order; they concern B2 only, which the generator keeps out of ConnOps (every connection has one writer, so its final state is defined)
	Pre       []string `json:"pre"`        // connections registered before the readers start (so that drops hit routes in use)
	Jitter    []int    `json:"jitter"`     // Gosched counts between writer ops
	Requests  int      `json:"requests"`   // per reader
}

type obs struct {
	path   string
	status int
	issued int64 // logical clock at issue
}

func doProbe(mux http.Handler, kind int, path, method string) int {
	switch kind {
	case 0:
		return drive.Serve(mux, drive.Request("GET", path, "", nil, nil, 0)).Rec.Code
	case 1:
		res := drive.Serve(mux, drive.GRPCRequest(method, nil, bytes.NewReader(drive.GRPCFrame(nil, false)), "application/grpc"))
		if res.Rec.Code == 404 {
			return 404
		}
		switch res.Trailer.Get("Grpc-Status") {
		case "0":
			return 200
		case "12":
			return 501
		}
		return 500
	default:
		hdr := http.Header{}
		hdr.Set("Content-Type", "application/grpc-web+proto")
		res := drive.Serve(mux, drive.Request("POST", method, "", hdr, bytes.NewReader(drive.GRPCFrame(nil, false)), -1))
		if res.Rec.Code == 404 {
			return 404
		}
		if bytes.Contains(res.Rec.Body.Bytes(), []byte("grpc-status: 0")) {
			return 200
		}
		if bytes.Contains(res.Rec.Body.Bytes(), []byte("grpc-status: 12")) || res.Hdr.Get("Grpc-Status") == "12" {
			return 501
		}
		return 500
	}
}

// longQuery makes the query-parsing step between route lookup and handler
// lookup take long enough for a writer to publish a new state inside it.
var longQuery = strings.Repeat("f_string=x&", 4000) + "f_int64=1"

func CheckStress(p Plan) ([]evid.Violation, int) {
	fixture.Setup()
	fixture.Backends["B3"].Alt.Store(false)
	mux, err := larking.NewMux(larking.FilesOption(fixture.World.Files))
	if err != nil {
		panic(err)
	}
	if err := mux.VerifRegisterService(fixture.LocalDesc(), nil); err != nil {
		panic(err)
	}
	for _, b := range p.Pre {
		if err, pnc := apply(mux, "conn:"+b); err != nil || pnc != nil {
			panic(fmt.Sprint("pre-registration of ", b, ": ", err, pnc))
		}
	}
	var clock atomic.Int64      // logical clock
	var okSeenAt atomic.Int64   // clock value at which a 200 for MultiOK was first fully observed (0 = never)
	var writerBusy atomic.Int64 // >0 while a writer is inside an operation
	var overlaps atomic.Int64
	var writersLeft atomic.Int64
	writersLeft.Store(2)
	var mu sync.Mutex
	var bad []string
	report := func(f string, a ...any) {
		mu.Lock()
		if len(bad) < 5 {
			bad = append(bad, fmt.Sprintf(f, a...))
		}
		mu.Unlock()
	}
	var wg sync.WaitGroup
	stop := make(chan struct{})
	type target struct{ path, method string }
	multi := []target{{"/fx/multiok/m1", "/un.MultiOK/M1"}, {"/fx/multiok/m3", "/un.MultiOK/M3"}, {"/fx/multiok/m2/z", "/un.MultiOK/M2"}}
	badT := []target{{"/fx/multibad/m1", "/un.MultiBad/M1"}, {"/fx/multibad/m2/z", "/un.MultiBad/M2"}, {"/fx/multibads/m1", "/un.MultiBadS/M1"}, {"/fx/multibads/m2/z", "/un.MultiBadS/M2"}}
	conn := []target{{"/fx/svcb", "/un.SvcB/Ping"}, {"/fx/svcc", "/un.SvcC/Ping"}, {"/fx/svcd", "/un.SvcD/Ping"}}
	for r := 0; r < p.Readers; r++ {
		wg.Add(1)
		go func(r int) {
			defer wg.Done()
			// readers keep going until both writers are done (a connection registration
			// takes ~10 ms: a fixed request count would end before the first one completes)
			for i := 0; i < p.Requests || (writersLeft.Load() > 0 && i < 20000); i++ {
				select {
				case <-stop:
					return
				default:
				}
				kind := (r + i) % 3
				if writerBusy.Load() > 0 {
					overlaps.Add(1)
				}
				// pre-registered method
				if st := doProbe(mux, kind, "/fx/svca", "/un.SvcA/Ping"); st != 200 {
					report("pre-registered SvcA answered %d (kind %d) during registration activity", st, kind)
				}
				if kind == 0 {
					// the same method through its binding with a path variable, plus nested query parameters:
					// while B1/B2 (other descriptor instances, B2 with another field order) co-own SvcA the
					// picked handler resolves the route's fields for its own message - by reading the route only
					res := drive.Serve(mux, drive.Request("GET", "/fx/svca/QUJD", "nest.sub_title=q&nest.leaf.count=2", nil, nil, 0))
					if res.Panic != nil {
						report("pre-registered SvcA panicked on its path-variable binding during registration activity: %v", res.Panic)
					} else if st := res.Rec.Code; st != 200 {
						report("pre-registered SvcA answered %d on its path-variable binding during registration activity", st)
					}
				}
				// service under registration: joint + monotone visibility
				tg := multi[(r+i)%len(multi)]
				seenBefore := okSeenAt.Load() != 0
				st := doProbe(mux, kind, tg.path, tg.method)
				switch {
				case st == 200:
					okSeenAt.CompareAndSwap(0, clock.Add(1))
				case st == 404 || (kind != 0 && st == 501 && false):
					if seenBefore {
						report("%s answered %d although a 200 for a MultiOK method had already been observed before this request was issued", tg.path, st)
					}
				default:
					report("%s answered %d (kind %d): neither absent nor fully served", tg.path, st, kind)
				}
				// failing registration: never observable
				tb := badT[(r+i)%len(badT)]
				if st := doProbe(mux, kind, tb.path, tb.method); st != 404 {
					report("%s of the failing MultiBad registration answered %d (kind %d)", tb.path, st, kind)
				}
				// one consistent state per request: Solo has a single annotated binding and SvcD/SvcE/SvcC a
				// single owner each, so every published state either routes the path to a handler (200) or
				// does not know it (404); "route found but no handler" (501) needs two different states
				if r%2 == 0 {
					solo := []string{"/fxsolo/svcd", "/fxsolo/svce", "/fxsolo/svcc"}[(r/2+i)%3]
					res := drive.Serve(mux, drive.Request("GET", solo, longQuery, nil, nil, 0))
					evid.Count(fmt.Sprintf("single-binding-probe-status-%d", res.Rec.Code), 1)
					if st := res.Rec.Code; st != 200 && st != 404 {
						report("torn read: GET %s answered %d %q - its route was found in one state and its handler looked up in another", solo, st, trunc(res.Rec.Body.String()))
					}
				}
				// conn-backed methods: served, absent or unimplemented - nothing else
				tc := conn[(r+i)%len(conn)]
				st = doProbe(mux, kind, tc.path, tc.method)
				evid.Count(fmt.Sprintf("conn-probe-status-%d", st), 1)
				if st != 200 && st != 404 && st != 501 {
					report("%s answered %d (kind %d)", tc.path, st, kind)
				}
			}
		}(r)
	}
	writer := func(ops []string, jit []int) {
		defer wg.Done()
		defer writersLeft.Add(-1)
		for i, op := range ops {
			for g := 0; g < jit[i%len(jit)]; g++ {
				runtime.Gosched()
			}
			writerBusy.Add(1)
			err, pnc := apply(mux, op)
			writerBusy.Add(-1)
			if pnc != nil {
				report("writer op %s panicked: %v", op, pnc)
			}
			if err != nil && op != "multi-bad" && op != "multi-bad-s" && op != "conn-badrule" {
				report("writer op %s failed: %v", op, err)
			}
		}
	}
	if len(p.Conn2Ops) > 0 {
		writersLeft.Add(1)
		wg.Add(1)
		go writer(p.Conn2Ops, p.Jitter)
	}
	wg.Add(2)
	go writer(p.WriterOps, p.Jitter)
	go writer(p.ConnOps, p.Jitter)
	wg.Wait()
	close(stop)
	// after everything: MultiOK fully served iff registered
	registered := false
	for _, op := range p.WriterOps {
		registered = registered || op == "multi-ok"
	}
	for _, tg := range multi {
		st := doProbe(mux, 0, tg.path, tg.method)
		if registered && st != 200 || !registered && st != 404 {
			report("after the plan: %s answers %d (registered=%v)", tg.path, st, registered)
		}
	}
	// after everything: a connection is routed iff its last operation registered it -
	// a writer that finished successfully must not be overwritten by another writer
	connected := map[string]bool{}
	for _, b := range p.Pre {
		connected[b] = true
	}
	for _, op := range append(append([]string{}, p.ConnOps...), p.Conn2Ops...) {
		kind, b, _ := strings.Cut(op, ":")
		connected[b] = kind == "conn"
	}
	for _, svc := range []string{"SvcB", "SvcC", "SvcD", "SvcE"} {
		owned := false
		for b, on := range connected {
			if on {
				for _, s := range fixture.Serves[b] {
					owned = owned || s == svc
				}
			}
		}
		path := "/fx/" + strings.ToLower(svc)
		st := doProbe(mux, 0, path, "")
		if owned && st != 200 || !owned && st == 200 {
			report("after the plan: %s answers %d although the connection operations %v + %v (pre %v) leave it served=%v (a completed registration or removal was lost)", path, st, p.ConnOps, p.Conn2Ops, p.Pre, owned)
		}
	}
	if st := doProbe(mux, 0, "/fx/svca", ""); st != 200 {
		report("after the plan: pre-registered /fx/svca answers %d", st)
	}
	// bindings that share route-tree nodes with other services' bindings: removing a neighbour
	// must not take them away (and must take away exactly its own)
	ownedSvc := func(svc string) bool {
		for b, on := range connected {
			if on {
				for _, s := range fixture.Serves[b] {
					if s == svc {
						return true
					}
				}
			}
		}
		return false
	}
	for svc, path := range fixture.TreeProbe {
		owned := ownedSvc(svc) || (svc == "SvcD" && ownedSvc("SvcC")) // "/fxt/lit" falls back to SvcC's variable binding
		if st := doProbe(mux, 0, path, ""); owned && st != 200 || !owned && st == 200 {
			report("after the plan: %s (%s.Tree) answers %d although the connection operations %v (pre %v) leave it served=%v", path, svc, st, p.ConnOps, p.Pre, owned)
		}
	}
	if len(bad) > 0 {
		return []evid.Violation{evid.V("stress", "stress:"+strings.SplitN(bad[0], " ", 2)[0], "%s", strings.Join(bad, "\n  "))}, int(overlaps.Load())
	}
	return nil, int(overlaps.Load())
}

func trunc(s string) string {
	if len(s) > 120 {
		return s[:120]
	}
	return s
}

func TestPropStress(t *testing.T) {
	rapid.Check(t, func(t *rapid.T) {
		p := Plan{
			Readers:  rapid.IntRange(2, 12).Draw(t, "readers"),
			Requests: rapid.IntRange(20, 80).Draw(t, "requests"),
		}
		n := rapid.IntRange(1, 5).Draw(t, "nops")
		usedOK := false
		for i := 0; i < n; i++ {
			op := rapid.SampledFrom([]string{"multi-bad", "multi-ok", "multi-bad-s", "local", "conn-badrule"}).Draw(t, "wop")
			if op == "multi-ok" {
				if usedOK {
					op = "multi-bad"
				}
				usedOK = true
			}
			p.WriterOps = append(p.WriterOps, op)
		}
		m := rapid.IntRange(0, 6).Draw(t, "nconn")
		for i := 0; i < m; i++ {
			p.ConnOps = append(p.ConnOps, rapid.SampledFrom([]string{"conn:B1", "conn:B3", "drop:B1", "drop:B3"}).Draw(t, "cop"))
		}
		// B2 has a writer of its own: its registrations and removals overlap those of the other connections
		for i, m2 := 0, rapid.IntRange(0, 3).Draw(t, "nconn2"); i < m2; i++ {
			p.Conn2Ops = append(p.Conn2Ops, rapid.SampledFrom([]string{"conn:B2", "drop:B2", "drop:B2"}).Draw(t, "cop2"))
		}
		for i := 0; i < 4; i++ {
			p.Jitter = append(p.Jitter, rapid.IntRange(0, 200).Draw(t, "jitter"))
		}
		for _, b := range []string{"B1", "B2", "B3"} {
			if rapid.Bool().Draw(t, "pre"+b) {
				p.Pre = append(p.Pre, b)
			}
		}
		vs, overlaps := CheckStress(p)
		key := ""
		if overlaps > 0 {
			key = fmt.Sprintf("p|%d|%v|%v|%v|%d|%v|%v", p.Readers, p.WriterOps, p.ConnOps, p.Jitter, p.Requests, p.Pre, p.Conn2Ops)
		}
		evid.Eval(key, "stress-plan")
		evid.Count("requests-overlapping-a-writer-operation", int64(overlaps))
		evid.Sample("stress", p)
		evid.Report(t, prop, map[string]any{"kind": "stress", "stress": p}, vs)
	})
}

// ---------------------------------------------------------------------------

type replay struct {
	Kind      string `json:"kind"`
	Snapshots SCase  `json:"snapshots"`
	Stress    Plan   `json:"stress"`
}

func TestReplay(t *testing.T) {
	path := os.Getenv("VERIF_REPLAY")
	if path == "" {
		t.Skip("VERIF_REPLAY not set")
	}
	var c replay
	if err := evid.LoadReplay(path, &c); err != nil {
		t.Fatal(err)
	}
	switch c.Kind {
	case "snapshots":
		vs, _ := CheckSnapshots(c.Snapshots)
		evid.Report(t, prop, c, vs)
	case "stress":
		var vs []evid.Violation
		for i := 0; i < 20 && len(vs) == 0; i++ { // schedules are sampled: repeat
			vs, _ = CheckStress(c.Stress)
		}
		evid.Report(t, prop, c, vs)
	}
}
