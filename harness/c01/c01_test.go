// C01 — routing soundness.
package c01

import (
	"fmt"
	"net/url"
	"os"
	"strings"
	"testing"

	"google.golang.org/protobuf/proto"
	"google.golang.org/protobuf/reflect/protoreflect"
	"pgregory.net/rapid"

	"verif/drive"
	"verif/evid"
	"verif/ref"
	"verif/route"
)

const prop = "C01"

func TestMain(m *testing.M) {
	code := m.Run()
	evid.Flush()
	os.Exit(code)
}

// Req is one request of a case.
type Req struct {
	Verb string `json:"verb"`
	Path string `json:"path"`
	Kind string `json:"kind"` // inst | near:<mutation> | free
	// QField/QValue: a decoy query parameter naming a string field that some
	// template of the rule set binds; it must never displace the path text.
	QField string `json:"q_field,omitempty"`
	QValue string `json:"q_value,omitempty"`
	// Raw: the client's own (non-canonical) percent-encoding of Path on the request line.
	Raw string `json:"raw,omitempty"`
}

func (r Req) query() string {
	if r.QField == "" {
		return ""
	}
	return r.QField + "=" + url.QueryEscape(r.QValue)
}

// Case is a rule set plus requests.
type Case struct {
	Rules route.RuleSet `json:"rules"`
	Reqs  []Req         `json:"reqs"`
}

type reqResult struct {
	dispatched bool
	explained  bool
}

// explain reports whether some binding owned by the dispatched method
// accounts for (verb, path, message).
func explain(owned []route.Owned, b *route.Built, r Req, path string, o route.Outcome) bool {
	verb := r.Verb
	md := route.ReqDesc(b.World)
	for _, ow := range owned {
		if route.MethodName(ow.Svc) != o.Method || !route.VerbMatches(ow.B.Verb, verb) {
			continue
		}
		for _, form := range route.PathForms(path) {
			for _, bind := range ow.T.Match(form, 0) {
				for _, e := range route.Expected(md, ow.T.Vars(), bind) {
					if r.QField != "" {
						bound := false
						for _, fp := range ow.T.Vars() {
							bound = bound || strings.Join(fp, ".") == r.QField
						}
						if !bound { // the query may fill a field this template does not bind
							ref.SetPath(e.ProtoReflect(), ref.ResolvePath(md, strings.Split(r.QField, ".")), protoreflect.ValueOfString(r.QValue))
						}
					}
					if proto.Equal(e, o.Msg) {
						return true
					}
				}
			}
		}
	}
	return false
}

// Check runs the case; results are parallel to c.Reqs.
func Check(c Case) ([]evid.Violation, []reqResult) {
	b := route.Build(c.Rules, nil)
	owned := c.Rules.Owned(b.Accepted)
	var vs []evid.Violation
	out := make([]reqResult, len(c.Reqs))
	for i, r := range c.Reqs {
		o := b.DoTarget(r.Verb, r.Path, r.Raw, r.query())
		if o.Method == "" {
			continue
		}
		out[i].dispatched = true
		if explain(owned, b, r, r.Path, o) {
			out[i].explained = true
			continue
		}
		// Canonical trigger feature for the signature.
		sig := "unexplained-dispatch"
		if strings.Contains(r.Path, ":") {
			for j := 0; j < len(r.Path); j++ {
				if r.Path[j] == ':' {
					alt := r.Path[:j] + "/" + r.Path[j+1:]
					if explain(owned, b, r, alt, o) {
						sig = "colon-accepted-as-slash"
						break
					}
				}
			}
		}
		var mine []string
		for _, ow := range owned {
			if route.MethodName(ow.Svc) == o.Method {
				mine = append(mine, ow.B.Verb+" "+ow.B.Tmpl)
			}
		}
		if r.QField != "" {
			// same request without the decoy: if that is explained, the query displaced a path-bound value
			if o2 := b.Do(r.Verb, r.Path, ""); o2.Method == o.Method && explain(owned, b, Req{Verb: r.Verb}, r.Path, o2) {
				sig = "query-displaces-path-value"
			}
		}
		vs = append(vs, evid.V("unsound-dispatch", sig, "%s %q ?%s dispatched to %s with {%v}; no rule of that method explains it (its rules: %v)",
			r.Verb, r.Path, r.query(), o.Method, o.Msg, mine))
	}
	// the bindings of the sibling methods (every odd service declares a streaming method Feed before its unary
	// one): they are covered by Feed's rules and by no rule of Mth
	for i := range c.Rules {
		if i%2 == 1 && b.Accepted[i] {
			for try := 0; try < 3; try++ {
				path, feed := route.FeedPath(i)+"/abc", fmt.Sprintf("/%s.Svc%d/Feed", route.Pkg, i)
				if try == 2 {
					path = feed // its implicit binding
				}
				if o := b.Do("POST", path, ""); o.Method != "" && o.Method != feed && !explain(owned, b, Req{Verb: "POST"}, path, o) {
					vs = append(vs, evid.V("unsound-dispatch", "sibling-method-rule", "POST %q (a binding of the streaming method Feed) dispatched to %s; no rule of that method covers it", path, o.Method))
					break
				}
			}
		}
	}
	return vs, out
}

var reqVerbs = []string{"GET", "POST", "PUT", "DELETE", "PATCH", "HEAD", "OPTIONS", "SEARCH", "search", "TRACE"}

func mutate(t *rapid.T, path string) (string, string) {
	idxs := func(ch byte) []int {
		var out []int
		for i := 0; i < len(path); i++ {
			if path[i] == ch {
				out = append(out, i)
			}
		}
		return out
	}
	segs := strings.Split(strings.TrimPrefix(path, "/"), "/")
	switch m := rapid.IntRange(0, 9).Draw(t, "mut"); m {
	case 0: // '/' -> ':'
		if s := idxs('/'); len(s) > 1 {
			i := rapid.SampledFrom(s[1:]).Draw(t, "at")
			return path[:i] + ":" + path[i+1:], "slash-to-colon"
		}
	case 1: // ':' -> '/'
		if s := idxs(':'); len(s) > 0 {
			i := rapid.SampledFrom(s).Draw(t, "at")
			return path[:i] + "/" + path[i+1:], "colon-to-slash"
		}
	case 2: // insert a segment
		i := rapid.IntRange(0, len(segs)).Draw(t, "at")
		ns := append(append(append([]string{}, segs[:i]...), route.GenSegment(t, "ins")), segs[i:]...)
		return "/" + strings.Join(ns, "/"), "insert-segment"
	case 3: // delete a segment
		if len(segs) > 1 {
			i := rapid.IntRange(0, len(segs)-1).Draw(t, "at")
			ns := append(append([]string{}, segs[:i]...), segs[i+1:]...)
			return "/" + strings.Join(ns, "/"), "delete-segment"
		}
	case 4: // duplicate a segment
		i := rapid.IntRange(0, len(segs)-1).Draw(t, "at")
		ns := append(append(append([]string{}, segs[:i+1]...), segs[i]), segs[i+1:]...)
		return "/" + strings.Join(ns, "/"), "duplicate-segment"
	case 5: // drop / change verb suffix
		if i := strings.LastIndex(path, ":"); i > 0 {
			if rapid.Bool().Draw(t, "drop") {
				return path[:i], "drop-verb"
			}
			return path[:i] + ":" + rapid.SampledFrom(route.VerbPool).Draw(t, "nv"), "change-verb"
		}
		return path + ":" + rapid.SampledFrom(route.VerbPool).Draw(t, "nv"), "add-verb"
	case 6: // second ":x"
		return path + ":" + rapid.SampledFrom(append([]string{"x1"}, route.VerbPool...)).Draw(t, "nv"), "append-verb"
	case 7:
		return path + "/", "trailing-slash"
	case 8: // alter one character
		if len(path) > 1 {
			i := rapid.IntRange(1, len(path)-1).Draw(t, "at")
			c := rapid.SampledFrom([]byte("abz019._-:/*")).Draw(t, "ch")
			return path[:i] + string(c) + path[i+1:], "alter-char"
		}
	case 9: // colon inside an early segment
		i := rapid.IntRange(1, len(path)).Draw(t, "at")
		return path[:i] + ":" + path[i:], "insert-colon"
	}
	return path + "/" + route.GenSegment(t, "extra"), "append-segment"
}

func genFree(t *rapid.T) string {
	n := rapid.IntRange(1, 40).Draw(t, "nfree")
	var sb strings.Builder
	for i := 0; i < n; i++ {
		switch rapid.IntRange(0, 7).Draw(t, "fk") {
		case 0, 1, 2:
			sb.WriteString("/")
		case 3:
			sb.WriteString(":")
		default:
			sb.WriteString(route.GenSegment(t, "fs"))
		}
	}
	return sb.String()
}

func genCase(t *rapid.T) Case {
	c := Case{Rules: route.GenOverlappingRuleSet(t, route.GenOpts{}, 6)}
	var tms []*ref.Template
	var verbs []string
	for i, mr := range c.Rules {
		for _, b := range mr.Bindings {
			tm, _ := ref.ParseTemplate(b.Tmpl)
			tms = append(tms, tm)
			verbs = append(verbs, b.Verb)
		}
		it, _ := ref.ParseTemplate(route.MethodName(i))
		tms = append(tms, it)
		verbs = append(verbs, "*")
	}
	var strFields []string
	for _, tm := range tms {
		for _, fp := range tm.Vars() {
			if f := strings.Join(fp, "."); route.FieldKind(f) == "str" {
				strFields = append(strFields, f)
			}
		}
	}
	n := rapid.IntRange(8, 16).Draw(t, "nreqs")
	for i := 0; i < n; i++ {
		k := rapid.IntRange(0, 9).Draw(t, "rk")
		if k == 0 {
			c.Reqs = append(c.Reqs, Req{Verb: rapid.SampledFrom(reqVerbs).Draw(t, "rv"), Path: genFree(t), Kind: "free"})
			continue
		}
		ti := rapid.IntRange(0, len(tms)-1).Draw(t, "ti")
		path, _ := route.Instantiate(t, tms[ti], 3, tms...)
		verb := strings.ToUpper(verbs[ti])
		if verb == "*" || rapid.IntRange(0, 9).Draw(t, "otherverb") == 0 {
			verb = rapid.SampledFrom(reqVerbs).Draw(t, "rv")
		} else if rapid.IntRange(0, 11).Draw(t, "verbcase") == 0 {
			// the binding's verb in another case: a different method token
			verb = rapid.SampledFrom([]string{strings.ToLower(verb), verb[:1] + strings.ToLower(verb[1:]), strings.ToLower(verb[:1]) + verb[1:]}).Draw(t, "verbspelling")
		}
		kind := "inst"
		nm := rapid.SampledFrom([]int{0, 0, 0, 1, 1, 1, 1, 2}).Draw(t, "nmut")
		for j := 0; j < nm; j++ {
			var m string
			path, m = mutate(t, path)
			if j == 0 {
				kind = "near:" + m
			} else {
				kind += "+" + m
			}
		}
		rq := Req{Verb: verb, Path: path, Kind: kind}
		if len(path) > 0 && strings.HasPrefix(path, "/") && rapid.IntRange(0, 5).Draw(t, "spelled") == 0 {
			at := rapid.IntRange(0, len(path)-1).Draw(t, "spellAt")
			how := rapid.IntRange(1, 2).Draw(t, "spellHow")
			rq.Raw = drive.Spell(path, func(i int) int {
				if i == at {
					return how
				}
				return 0
			})
		}
		if len(strFields) > 0 && rapid.IntRange(0, 3).Draw(t, "decoy") == 0 {
			rq.QField = rapid.SampledFrom(strFields).Draw(t, "qfield")
			rq.QValue = route.GenSegment(t, "qvalue")
		}
		c.Reqs = append(c.Reqs, rq)
	}
	return c
}

func tmplClasses(rs route.RuleSet) []string {
	set := map[string]bool{}
	for _, mr := range rs {
		for _, b := range mr.Bindings {
			tm, err := ref.ParseTemplate(b.Tmpl)
			if err != nil {
				continue
			}
			if tm.Verb != "" {
				set["tmpl:verb"] = true
			}
			for _, a := range tm.Atoms() {
				if a.Kind == ref.StarStar {
					set["tmpl:**"] = true
				}
			}
			for _, s := range tm.Segs {
				if s.Kind == ref.Var {
					if len(s.Pat) > 1 {
						set["tmpl:multi-seg-var"] = true
					}
					if len(s.Field) > 1 {
						set["tmpl:nested-field"] = true
					}
					if route.FieldKind(strings.Join(s.Field, ".")) != "str" {
						set["tmpl:typed-field"] = true
					}
				}
			}
			if b.Verb == "*" {
				set["tmpl:verb-any"] = true
			}
		}
	}
	var out []string
	for k := range set {
		out = append(out, k)
	}
	return out
}

func record(c Case, rr []reqResult) {
	tc := tmplClasses(c.Rules)
	for i, r := range c.Reqs {
		key := ""
		cl := []string{"req:" + strings.SplitN(r.Kind, "+", 2)[0]}
		if strings.Contains(r.Path, ":") {
			cl = append(cl, "path-has-colon")
		}
		if r.QField != "" {
			cl = append(cl, "decoy-query-on-bound-field")
		}
		if rr[i].dispatched {
			cl = append(cl, "dispatched")
			key = fmt.Sprintf("d|%s|%s|%v", r.Kind, shapeOf(r.Path), tc)
		} else {
			cl = append(cl, "refused")
			if strings.HasPrefix(r.Kind, "near:") && !strings.Contains(r.Kind, "+") {
				key = fmt.Sprintf("n|%s|%s|%v", r.Kind, shapeOf(r.Path), tc)
			}
		}
		evid.Eval(key, append(cl, tc...)...)
	}
}

// shapeOf abstracts a path to its separator skeleton.
func shapeOf(p string) string {
	var sb strings.Builder
	inSeg := false
	for i := 0; i < len(p); i++ {
		switch p[i] {
		case '/', ':':
			sb.WriteByte(p[i])
			inSeg = false
		default:
			if !inSeg {
				sb.WriteByte('s')
				inSeg = true
			}
		}
	}
	return sb.String()
}

func TestProp(t *testing.T) {
	rapid.Check(t, func(t *rapid.T) {
		c := genCase(t)
		vs, rr := Check(c)
		record(c, rr)
		evid.Sample("case", c)
		evid.Report(t, prop, c, vs)
	})
}

// FuzzRoute is the native coverage-guided target (thorough tier): the same rule-set/request generator driven by the fuzzer's bytes.
func FuzzRoute(f *testing.F) {
	f.Fuzz(rapid.MakeFuzz(func(t *rapid.T) {
		c := genCase(t)
		vs, _ := Check(c)
		if len(vs) > 0 && !evid.IsKnown(prop, vs[0].Sig) {
			t.Fatalf("property %s violated: %v\ncase: %+v", prop, vs[0], c)
		}
	}))
}

func TestReplay(t *testing.T) {
	path := os.Getenv("VERIF_REPLAY")
	if path == "" {
		t.Skip("VERIF_REPLAY not set")
	}
	var c Case
	if err := evid.LoadReplay(path, &c); err != nil {
		t.Fatal(err)
	}
	vs, _ := Check(c)
	evid.Report(t, prop, c, vs)
}
