// C16 — registration accepts valid rules and rejects invalid ones without crashing.
package c16

import (
	"fmt"
	"os"
	"strings"
	"testing"
	"unicode"

	"google.golang.org/genproto/googleapis/api/annotations"
	"google.golang.org/genproto/googleapis/api/serviceconfig"
	"google.golang.org/protobuf/proto"
	"google.golang.org/protobuf/reflect/protoreflect"
	"larking.io/larking"
	"pgregory.net/rapid"

	"verif/drive"
	"verif/evid"
	"verif/ref"
	"verif/route"
)

const prop = "C16"

func TestMain(m *testing.M) {
	code := m.Run()
	evid.Flush()
	os.Exit(code)
}

type Req struct {
	Verb string `json:"verb"`
	Path string `json:"path"`
}

type Case struct {
	Base           route.RuleSet   `json:"base"`
	Probes         []Req           `json:"probes"`
	New            []route.Binding `json:"new"`
	NestAdditional bool            `json:"nest_additional"`
	NestParent     int             `json:"nest_parent"` // which of the remaining additional bindings receives the nested one (0 = the first; valid siblings may follow it)
	Via            int             `json:"via"`         // 0 annotation, 1 service config, 2 both
	Kind           string          `json:"kind"`
	// NewPaths[i]: further paths instantiated from New[i] (wildcards often filled with a literal
	// that a base rule spells at the same position), besides the fixed instantiation.
	NewPaths [][]string `json:"new_paths,omitempty"`
}

func (c Case) newRule() *annotations.HttpRule {
	r := route.MethodRules{Bindings: c.New}.HTTPRule()
	if c.NestAdditional && len(r.AdditionalBindings) >= 2 {
		last := r.AdditionalBindings[len(r.AdditionalBindings)-1]
		r.AdditionalBindings = r.AdditionalBindings[:len(r.AdditionalBindings)-1]
		p := c.NestParent % len(r.AdditionalBindings)
		r.AdditionalBindings[p].AdditionalBindings = append(r.AdditionalBindings[p].AdditionalBindings, last)
	}
	return r
}

// verdicts
const (
	accept = "accept"
	reject = "reject"
	either = "either"
)

func worse(a, b string) string {
	// reject dominates, then either, then accept
	if a == reject || b == reject {
		return reject
	}
	if a == either || b == either {
		return either
	}
	return accept
}

// throughCollection reports whether the path steps through a repeated or map
// field before its last component (no single message is denoted then).
func throughCollection(fds []protoreflect.FieldDescriptor) bool {
	for _, fd := range fds[:len(fds)-1] {
		if fd.IsList() || fd.IsMap() {
			return true
		}
	}
	return false
}

// expect derives the required verdict from the case alone.
func expect(c Case) (string, string) {
	verdict, why := accept, "valid"
	set := func(v, w string) {
		nv := worse(verdict, v)
		if nv != verdict || (v == reject && !strings.HasPrefix(why, "invalid")) {
			if v == reject {
				why = "invalid: " + w
			} else if nv != verdict {
				why = "contested: " + w
			}
		}
		verdict = nv
	}
	if c.NestAdditional && len(c.New) >= 3 {
		set(reject, "nested additional_bindings")
	}
	w := route.WorldRules(nil)
	md := route.ReqDesc(w)
	n := len(c.Base)
	for _, b := range c.New {
		tm, err := ref.ParseTemplate(b.Tmpl)
		if err != nil {
			set(reject, "malformed template "+b.Tmpl)
			continue
		}
		if strings.Count(b.Tmpl, "/") >= 20 {
			// grammatical, but an implementation may bound the length of a template: accepted (and then
			// routed) or refused with an error - never a panic
			set(either, "very long template")
		}
		if tm.NestedVar {
			set(either, "nested variable")
		}
		if tm.StarStarNotLast {
			set(either, "'**' not last")
		}
		for _, a := range tm.Atoms() {
			if a.Kind == ref.Lit && !unicode.IsLetter([]rune(a.Lit)[0]) {
				set(either, "literal not starting with a letter")
			}
		}
		if tm.Verb != "" && !unicode.IsLetter([]rune(tm.Verb)[0]) {
			set(either, "verb not starting with a letter")
		}
		seenField := map[string]bool{}
		for _, fp := range tm.Vars() {
			for _, id := range fp {
				if strings.Contains(id, "-") || unicode.IsDigit([]rune(id)[0]) {
					set(either, "IDENT that is not a proto identifier")
				}
			}
			fds := ref.ResolvePath(md, fp)
			if fds == nil {
				set(reject, "unresolvable field path "+strings.Join(fp, "."))
				continue
			}
			leaf := fds[len(fds)-1]
			if leaf.IsList() || leaf.IsMap() || leaf.Message() != nil {
				set(either, "variable on a non-scalar field")
			}
			if leaf.Kind() != protoreflect.StringKind {
				// a typed variable whose pattern spells literals or several
				// segments can never capture convertible text
				for _, sg := range tm.Segs {
					if sg.Kind == ref.Var && strings.Join(sg.Field, ".") == strings.Join(fp, ".") && !(len(sg.Pat) == 1 && sg.Pat[0].Kind == ref.Star) {
						set(either, "typed variable with a multi-segment or literal pattern")
					}
				}
			}
			for _, fd := range fds[:len(fds)-1] {
				if fd.IsList() || fd.IsMap() {
					set(either, "field path through repeated/map")
				}
			}
			k := strings.Join(fp, ".")
			if seenField[k] {
				set(either, "field bound twice")
			}
			seenField[k] = true
		}
		switch b.Body {
		case "", "*":
		default:
			fds := ref.ResolvePath(md, strings.Split(b.Body, "."))
			if fds == nil {
				set(reject, "unresolvable body selector "+b.Body)
			} else if l := fds[len(fds)-1]; l.Message() == nil || l.IsList() || l.IsMap() {
				set(either, "body selects a non-message field")
			} else if throughCollection(fds) {
				set(either, "body selector through repeated/map")
			}
		}
		if b.Resp != "" {
			fds := ref.ResolvePath(route.RspDesc(w), strings.Split(b.Resp, ".")) // the response type, which is not the request type
			if fds == nil {
				set(reject, "unresolvable response_body selector "+b.Resp)
			} else if l := fds[len(fds)-1]; l.Message() == nil || l.IsList() || l.IsMap() {
				set(either, "response_body selects a non-message field")
			} else if throughCollection(fds) {
				set(either, "response_body selector through repeated/map")
			}
		}
		if b.Verb == "" {
			set(either, "empty custom kind")
		}
		// collisions with another method's bindings
		for _, ow := range c.Base.Owned(nil) {
			if ow.T.PositionKey() != tm.PositionKey() {
				continue
			}
			switch {
			case strings.EqualFold(ow.B.Verb, b.Verb):
				set(reject, fmt.Sprintf("conflicts with %s %s of service %d", ow.B.Verb, ow.B.Tmpl, ow.Svc))
			case ow.B.Verb == "*" || b.Verb == "*":
				set(either, "'*' kind overlapping a specific verb of another method")
			}
		}
		_ = n
	}
	// two different bindings of the method itself on one trie position and
	// verb: which one wins is unspecified
	for i, a := range c.New {
		for _, b := range c.New[:i] {
			ta, ea := ref.ParseTemplate(a.Tmpl)
			tb, eb := ref.ParseTemplate(b.Tmpl)
			if ea != nil || eb != nil || a == b {
				continue
			}
			if ta.PositionKey() == tb.PositionKey() && (a.Verb == "*" || b.Verb == "*" || strings.EqualFold(a.Verb, b.Verb)) {
				set(either, "two different bindings of the method on one position")
			}
		}
	}
	return verdict, why
}

func shadowedByBase(c Case, verb, path string) bool {
	for _, ow := range c.Base.Owned(nil) {
		if route.VerbMatches(ow.B.Verb, verb) && len(ow.T.Match(path, 0)) > 0 {
			return true
		}
	}
	return false
}

type info struct {
	verdict, why string
	accepted     bool
	dispatched   int
	shadowed     int
}

func Check(c Case) ([]evid.Violation, info) {
	var vs []evid.Violation
	n := len(c.Base)
	verdict, why := expect(c)
	in := info{verdict: verdict, why: why}

	rules := make([]*annotations.HttpRule, n+1)
	for i, mr := range c.Base {
		rules[i] = mr.HTTPRule()
	}
	if c.Via != 1 {
		rules[n] = c.newRule()
	}
	w := route.WorldRules(rules)
	var opts []larking.MuxOption
	if c.Via >= 1 {
		r := proto.Clone(c.newRule()).(*annotations.HttpRule)
		r.Selector = fmt.Sprintf("rt.Svc%d.Mth", n)
		opts = append(opts, larking.ServiceConfigOption(&serviceconfig.Service{Http: &annotations.Http{Rules: []*annotations.HttpRule{r}}}))
	}
	b := route.BuildWorld(w, n+1, seq(n), opts...)
	for i := 0; i < n; i++ {
		if !b.Accepted[i] {
			// Base sets are conflict-free and valid by construction.
			return []evid.Violation{evid.V("base-rejected", "base-rejected", "base service %d (%v) rejected: %s", i, c.Base[i], b.Errs[i])}, in
		}
	}
	before := make([]route.Outcome, len(c.Probes))
	for i, p := range c.Probes {
		before[i] = b.Do(p.Verb, p.Path, "")
	}
	err, pnc, stack := route.Register(b.Mux, w, b.Rec, n)
	if pnc != nil {
		vs = append(vs, evid.V("registration-panic", "registration-panic@"+drive.TopFrame(stack), "registering %v (%s, expected %s: %s) panicked: %v", c.New, c.Kind, verdict, why, pnc))
		return vs, in
	}
	in.accepted = err == nil
	switch {
	case verdict == accept && err != nil:
		vs = append(vs, evid.V("valid-rejected", "valid-rejected:"+feature(c), "valid rule %v (via=%d) rejected: %v", c.New, c.Via, err))
	case verdict == reject && err == nil:
		vs = append(vs, evid.V("invalid-accepted", "invalid-accepted:"+strings.SplitN(strings.TrimPrefix(why, "invalid: "), " ", 3)[0], "rule %v (via=%d nest=%v) accepted although %s", c.New, c.Via, c.NestAdditional, why))
	}
	if err != nil {
		for i, p := range c.Probes {
			after := b.Do(p.Verb, p.Path, "")
			if !after.Equal(before[i]) {
				vs = append(vs, evid.V("routes-not-intact", "", "after rejected registration of %v: probe %s %q was %v now %v", c.New, p.Verb, p.Path, before[i], after))
			}
		}
		return vs, in
	}
	// accepted: serve one instantiated path per binding
	type inst struct {
		bd   route.Binding
		path string
	}
	var insts []inst
	for i, bd := range c.New {
		tm, perr := ref.ParseTemplate(bd.Tmpl)
		if perr != nil {
			continue
		}
		path, _ := route.InstantiateFixed(tm)
		insts = append(insts, inst{bd, path})
		if i < len(c.NewPaths) {
			for _, p := range c.NewPaths[i] {
				if len(tm.Match(p, 1)) > 0 { // the case may have been shrunk: only paths of this template
					insts = append(insts, inst{bd, p})
				}
			}
		}
	}
	for _, in2 := range insts {
		bd, path := in2.bd, in2.path
		verb := strings.ToUpper(bd.Verb)
		if verb == "*" || verb == "" {
			verb = "GET"
		}
		o := b.Do(verb, path, "")
		if o.Panic != "" {
			vs = append(vs, evid.V("serve-panic", "serve-"+strings.SplitN(o.Panic, ":", 2)[0], "accepted rule %s %s panics when %s %q is served: %s", bd.Verb, bd.Tmpl, verb, path, o.Panic))
			continue
		}
		if bd.Body != "" {
			// the binding maps a body: serve one, too (an accepted rule must cope with its own mapping)
			for _, body := range []string{`{}`, `{"name":"n"}`, `"text"`, `7`} {
				if ob := b.DoBody(verb, path, body); ob.Panic != "" {
					vs = append(vs, evid.V("serve-panic", "serve-"+strings.SplitN(ob.Panic, ":", 2)[0], "accepted rule %s %s (body %q) panics when %s %q is served with body %s: %s", bd.Verb, bd.Tmpl, bd.Body, verb, path, body, ob.Panic))
					break
				}
			}
		}
		if verdict != accept {
			continue
		}
		if shadowedByBase(c, verb, path) {
			in.shadowed++
			continue
		}
		// A sibling binding that also matches the path structurally may win the
		// search (and abort it if its capture is not convertible - the
		// precondition C02 carves out); routing is then not asserted.
		sibling := false
		for _, other := range c.New {
			ot, oerr := ref.ParseTemplate(other.Tmpl)
			if oerr == nil && other.Tmpl != bd.Tmpl && route.VerbMatches(other.Verb, verb) && len(ot.Match(path, 0)) > 0 {
				sibling = true
			}
		}
		if sibling {
			in.shadowed++
			continue
		}
		if o.Method != route.MethodName(n) {
			vs = append(vs, evid.V("accepted-not-routed", "accepted-not-routed:"+feature(c), "rule %s %s accepted but %s %q -> %v", bd.Verb, bd.Tmpl, verb, path, o))
		} else {
			in.dispatched++
		}
	}
	return vs, in
}

// feature classifies the new rule for signatures.
func feature(c Case) string {
	var fs []string
	add := func(s string) {
		for _, f := range fs {
			if f == s {
				return
			}
		}
		fs = append(fs, s)
	}
	for _, b := range c.New {
		tm, err := ref.ParseTemplate(b.Tmpl)
		if err != nil {
			continue
		}
		for _, a := range tm.Atoms() {
			if a.Kind == ref.Lit && len([]rune(a.Lit)) == 1 {
				add("one-char-literal")
			}
		}
		if b.Resp != "" {
			add("response_body")
		}
		if b.Body != "" && b.Body != "*" {
			add("body-field")
		}
	}
	if len(fs) == 0 {
		return "other"
	}
	return strings.Join(fs, "+")
}

func seq(n int) []int {
	out := make([]int, n)
	for i := range out {
		out[i] = i
	}
	return out
}

var c16Lits = []string{"v1", "books", "shelves", "a", "Z", "b1", "x-y", "a.b", "a_b", "v1.2-rc", "k", "items"}
var c16Verbs = []string{"read", "r", "x.y", "get-all"}

// single-edit alphabet: the grammar's punctuation, identifier characters, and multi-byte runes that are
// letters (é, ж), symbols (€, 😀) or neither (U+00A0, %, space) - 1 to 4 bytes wide
var editChars = []rune("{}=/*:.abZ19_-éж€😀\u00a0% ")

func genCase(t *rapid.T) Case {
	var c Case
	if rapid.Bool().Draw(t, "nonEmptyBase") {
		c.Base = route.ConflictFree(route.GenOverlappingRuleSet(t, route.GenOpts{StarStarOnlyLast: true}, 4))
	}
	// probes: instantiations + near misses of base templates
	for i, mr := range c.Base {
		for _, b := range mr.Bindings {
			tm, _ := ref.ParseTemplate(b.Tmpl)
			p, _ := route.Instantiate(t, tm, 3)
			verb := strings.ToUpper(b.Verb)
			if verb == "*" {
				verb = "GET"
			}
			c.Probes = append(c.Probes, Req{verb, p}, Req{verb, p + "/zz"}, Req{"TRACE", p})
		}
		c.Probes = append(c.Probes, Req{"POST", route.MethodName(i)})
	}
	c.Via = rapid.SampledFrom([]int{0, 0, 0, 1, 2}).Draw(t, "via")
	o := route.GenOpts{Lits: c16Lits, Verbs: c16Verbs}
	valid := func() route.Binding {
		return route.Binding{Verb: rapid.SampledFrom(route.HTTPVerbs).Draw(t, "nverb"), Tmpl: route.GenTemplate(t, o).String()}
	}
	c.Kind = rapid.SampledFrom([]string{"valid", "valid", "valid", "mutant", "mutant", "fieldfault", "selector", "nested", "collision", "twice", "implicit", "contested", "long"}).Draw(t, "kind")
	nb := rapid.SampledFrom([]int{1, 1, 2, 3}).Draw(t, "nb")
	for i := 0; i < nb; i++ {
		c.New = append(c.New, valid())
	}
	pick := rapid.IntRange(0, len(c.New)-1).Draw(t, "pick")
	switch c.Kind {
	case "mutant":
		s := c.New[pick].Tmpl
		pos := rapid.IntRange(0, len(s)).Draw(t, "pos")
		ch := string(editChars[rapid.IntRange(0, len(editChars)-1).Draw(t, "ch")])
		switch rapid.IntRange(0, 2).Draw(t, "edit") {
		case 0:
			if pos < len(s) {
				s = s[:pos] + s[pos+1:]
			}
		case 1:
			s = s[:pos] + ch + s[pos:]
		case 2:
			if pos < len(s) {
				s = s[:pos] + ch + s[pos+1:]
			}
		}
		c.New[pick].Tmpl = s
	case "long":
		// a valid template continued with literal segments up to and beyond any plausible token budget
		tm := c.New[pick].Tmpl
		verb := ""
		if i := strings.LastIndex(tm, ":"); i > strings.LastIndex(tm, "}") && i > strings.LastIndex(tm, "/") {
			tm, verb = tm[:i], tm[i:]
		}
		if !strings.Contains(tm, "**") {
			for n := rapid.IntRange(20, 40).Draw(t, "longSegs"); strings.Count(tm, "/") < n; {
				tm += "/" + rapid.SampledFrom(c16Lits).Draw(t, "longLit")
			}
		}
		c.New[pick].Tmpl = tm + verb
	case "fieldfault":
		f := rapid.SampledFrom([]string{"nope", "name.id", "Name", "sub.nope", "sub.inner.id.x", "tags", "sub", "page_size", "pageSize", "labels", "labels.key", "labels.value", "subs.key", "subs.value.name", "subs.value.inner.id"}).Draw(t, "ff")
		c.New[pick].Tmpl = "/" + rapid.SampledFrom(c16Lits).Draw(t, "fl") + "/{" + f + "}"
	case "selector":
		c.New[pick].Body = rapid.SampledFrom([]string{"", "*", "sub", "sub.inner", "nope", "sub.nope", "name", "tags", "*", "subs", "subs.value", "subs.value.inner", "labels.value", "req_only", "rsp_only", "sub.name", "sub.inner.id"}).Draw(t, "body")
		c.New[pick].Resp = rapid.SampledFrom([]string{"", "sub", "sub.inner", "nope", "sub.nope", "name", "", "subs.value", "labels", "rsp_only", "rsp_only.inner", "req_only", "req_only.inner", "sub.name", "sub.inner.id"}).Draw(t, "resp")
	case "nested":
		for n := rapid.IntRange(3, 5).Draw(t, "nestN"); len(c.New) < n; {
			c.New = append(c.New, valid())
		}
		c.NestAdditional = true
		c.NestParent = rapid.IntRange(0, len(c.New)-3).Draw(t, "nestParent")
	case "collision":
		if own := c.Base.Owned(nil); len(own) > 0 {
			ow := rapid.SampledFrom(own).Draw(t, "victim")
			v := ow.B.Verb
			if rapid.IntRange(0, 3).Draw(t, "cv") == 0 {
				v = rapid.SampledFrom([]string{"GET", "POST", "*"}).Draw(t, "cverb")
			}
			c.New[pick] = route.Binding{Verb: v, Tmpl: ow.B.Tmpl}
		}
	case "contested":
		if rapid.Bool().Draw(t, "genNested") {
			// a variable nested in the pattern of another one, after an arbitrary valid prefix
			// (which may itself contain plain and patterned variables)
			pre := route.GenTemplate(t, route.GenOpts{Lits: c16Lits}).String()
			if i := strings.LastIndex(pre, ":"); i > 0 {
				pre = pre[:i]
			}
			if strings.Contains(pre, "**") {
				pre = "/" + rapid.SampledFrom(c16Lits).Draw(t, "npre")
			}
			inner := "{" + rapid.SampledFrom([]string{"other", "parent", "sub.inner.id"}).Draw(t, "ninner") + rapid.SampledFrom([]string{"", "=*", "=v1/*"}).Draw(t, "ninnerpat") + "}"
			pat := rapid.SampledFrom([]string{"%s", "v1/%s", "%s/v1", "*/%s", "v1/%s/*"}).Draw(t, "npat")
			c.New[pick].Tmpl = pre + "/{" + rapid.SampledFrom([]string{"name", "sub.inner.id", "title"}).Draw(t, "nouter") + "=" + fmt.Sprintf(pat, inner) + "}" + rapid.SampledFrom([]string{"", "", ":read", "/v1"}).Draw(t, "ntail")
			break
		}
		c.New[pick].Tmpl = rapid.SampledFrom([]string{
			"/v1/{name={parent}}", "/{name=v1/{parent}}", "/{name={parent=*}/x}", "/v1/**/x", "/{name=**}/x", "/**/{name}",
			"/1a", "/v1/-x", "/.a", "/v1/{name}:1", "/{sub.inner.id={name}}", "/{name}/{name}", "/{tags}", "/{sub}", "/v1/{name=**}:x/y",
		}).Draw(t, "ctmpl")
	case "twice":
		c.New = append(c.New, c.New[pick])
	case "implicit":
		c.New[pick] = route.Binding{Verb: rapid.SampledFrom([]string{"POST", "GET", "*"}).Draw(t, "iv"), Tmpl: route.MethodName(len(c.Base)), Body: "*"}
	}
	if c.Kind == "valid" || c.Kind == "collision" || c.Kind == "twice" {
		var baseT []*ref.Template
		for _, ow := range c.Base.Owned(nil) {
			baseT = append(baseT, ow.T)
		}
		for _, bd := range c.New {
			var ps []string
			if tm, err := ref.ParseTemplate(bd.Tmpl); err == nil && !tm.NestedVar && !tm.StarStarNotLast {
				for k := 0; k < 2; k++ {
					p, _ := route.Instantiate(t, tm, 3, baseT...)
					ps = append(ps, p)
				}
			}
			c.NewPaths = append(c.NewPaths, ps)
		}
	}
	// probes of the rule under registration itself: if the registration is refused, its own paths - and
	// the base paths under ITS verbs - must answer exactly as before (nothing of a refused rule is bound)
	baseN := len(c.Probes)
	for _, nb := range c.New {
		verb := strings.ToUpper(nb.Verb)
		if verb == "*" || verb == "" {
			verb = "GET"
		}
		if tm, err := ref.ParseTemplate(nb.Tmpl); err == nil {
			p, _ := route.InstantiateFixed(tm)
			c.Probes = append(c.Probes, Req{verb, p})
		}
		for i := 0; i < baseN && i < 12; i += 3 {
			c.Probes = append(c.Probes, Req{verb, c.Probes[i].Path})
		}
	}
	return c
}

func shapes(c Case) string {
	var s []string
	for _, b := range c.New {
		if tm, err := ref.ParseTemplate(b.Tmpl); err == nil {
			s = append(s, tm.Shape())
		} else {
			s = append(s, "!")
		}
	}
	return strings.Join(s, ",")
}

func record(c Case, in info) {
	cl := []string{"kind=" + c.Kind, "expect=" + in.verdict, fmt.Sprintf("via=%d", c.Via)}
	if len(c.Base) > 0 {
		cl = append(cl, "non-empty-mux")
	} else {
		cl = append(cl, "empty-mux")
	}
	if in.accepted {
		cl = append(cl, "accepted")
	} else {
		cl = append(cl, "rejected")
	}
	if in.dispatched > 0 {
		cl = append(cl, "routed-after-accept")
	}
	if f := feature(c); f != "other" {
		cl = append(cl, "feat="+f)
	}
	key := ""
	nontriv := c.Kind != "valid"
	for _, b := range c.New {
		if tm, err := ref.ParseTemplate(b.Tmpl); err == nil && (len(tm.Vars()) > 0 || tm.Verb != "") {
			nontriv = true
		}
	}
	if nontriv {
		key = fmt.Sprintf("%s|%s|%s|%d|%v|%s", c.Kind, in.verdict, shapes(c), c.Via, len(c.Base) > 0, strings.SplitN(in.why, " ", 3)[0])
	}
	evid.Eval(key, cl...)
}

func TestProp(t *testing.T) {
	rapid.Check(t, func(t *rapid.T) {
		c := genCase(t)
		vs, in := Check(c)
		record(c, in)
		evid.Sample(c.Kind, c)
		evid.Report(t, prop, c, vs)
	})
}

// FuzzRegister is the native coverage-guided target (thorough tier): the same rule generator driven by the fuzzer's bytes.
func FuzzRegister(f *testing.F) {
	f.Fuzz(rapid.MakeFuzz(func(t *rapid.T) {
		c := genCase(t)
		vs, _ := Check(c)
		if len(vs) > 0 && !evid.IsKnown(prop, vs[0].Sig) {
			t.Fatalf("property %s violated: %v\ncase: %+v", prop, vs[0], c)
		}
	}))
}

func TestReplay(t *testing.T) {
	path := os.Getenv("VERIF_REPLAY")
	if path == "" {
		t.Skip("VERIF_REPLAY not set")
	}
	var c Case
	if err := evid.LoadReplay(path, &c); err != nil {
		t.Fatal(err)
	}
	vs, _ := Check(c)
	evid.Report(t, prop, c, vs)
}
