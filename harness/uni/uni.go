// Package uni is the fixed rich schema ("universe") and the descriptor-driven
// message generator shared by C03, C04, C06, C08, C13.
package uni

import (
	"encoding/base64"
	"fmt"
	"math"
	"strconv"
	"strings"
	"sync"

	"google.golang.org/protobuf/encoding/protojson"
	"google.golang.org/protobuf/proto"
	"google.golang.org/protobuf/reflect/protoreflect"
	"google.golang.org/protobuf/types/descriptorpb"
	"google.golang.org/protobuf/types/dynamicpb"
	"pgregory.net/rapid"

	"verif/dyn"
)

const Pkg = "un"

func wk(n string) dyn.FOpt { return dyn.Of(".google.protobuf." + n) }

// Messages returns the universe message declarations.
func Messages() []*descriptorpb.DescriptorProto {
	all := dyn.Msg("All",
		dyn.F("f_double", 1, dyn.Double), dyn.F("f_float", 2, dyn.Float),
		dyn.F("f_int32", 3, dyn.Int32), dyn.F("f_int64", 4, dyn.Int64),
		dyn.F("f_uint32", 5, dyn.Uint32), dyn.F("f_uint64", 6, dyn.Uint64),
		dyn.F("f_sint32", 7, dyn.Sint32), dyn.F("f_sint64", 8, dyn.Sint64),
		dyn.F("f_fixed32", 9, dyn.Fixed32), dyn.F("f_fixed64", 10, dyn.Fixed64),
		dyn.F("f_sfixed32", 11, dyn.Sfixed32), dyn.F("f_sfixed64", 12, dyn.Sfixed64),
		dyn.F("f_bool", 13, dyn.Bool), dyn.F("f_string", 14, dyn.String),
		dyn.F("f_bytes", 15, dyn.Bytes), dyn.F("f_enum", 16, dyn.Enum, dyn.Of(".un.Color")),
		dyn.F("nest", 17, dyn.Message, dyn.Of(".un.Nest")),
		dyn.F("r_int32", 18, dyn.Int32, dyn.Rep()), dyn.F("r_string", 19, dyn.String, dyn.Rep()),
		dyn.F("r_enum", 20, dyn.Enum, dyn.Of(".un.Color"), dyn.Rep()), dyn.F("r_bytes", 21, dyn.Bytes, dyn.Rep()),
		dyn.F("r_double", 22, dyn.Double, dyn.Rep()), dyn.F("r_bool", 23, dyn.Bool, dyn.Rep()),
		dyn.F("r_uint64", 24, dyn.Uint64, dyn.Rep()),
		dyn.F("o_string", 25, dyn.String, dyn.InOneof(0)), dyn.F("o_int64", 26, dyn.Int64, dyn.InOneof(0)),
		dyn.F("o_leaf", 27, dyn.Message, dyn.Of(".un.Leaf"), dyn.InOneof(0)),
		dyn.F("ts", 28, dyn.Message, wk("Timestamp")), dyn.F("dur", 29, dyn.Message, wk("Duration")),
		dyn.F("mask", 30, dyn.Message, wk("FieldMask")),
		dyn.F("w_bool", 31, dyn.Message, wk("BoolValue")), dyn.F("w_int32", 32, dyn.Message, wk("Int32Value")),
		dyn.F("w_int64", 33, dyn.Message, wk("Int64Value")), dyn.F("w_uint32", 34, dyn.Message, wk("UInt32Value")),
		dyn.F("w_uint64", 35, dyn.Message, wk("UInt64Value")), dyn.F("w_float", 36, dyn.Message, wk("FloatValue")),
		dyn.F("w_double", 37, dyn.Message, wk("DoubleValue")), dyn.F("w_string", 38, dyn.Message, wk("StringValue")),
		dyn.F("w_bytes", 39, dyn.Message, wk("BytesValue")),
		dyn.F("m_si", 40, dyn.Message, dyn.Of(".un.All.MSiEntry"), dyn.Rep()),
		dyn.F("m_sl", 41, dyn.Message, dyn.Of(".un.All.MSlEntry"), dyn.Rep()),
		dyn.F("r_leaf", 42, dyn.Message, dyn.Of(".un.Leaf"), dyn.Rep()),
		dyn.F("body_leaf", 43, dyn.Message, dyn.Of(".un.Leaf")),
		dyn.F("path_name", 44, dyn.String),
		dyn.F("http_body", 45, dyn.Message, dyn.Of(".google.api.HttpBody")),
	)
	all.OneofDecl = []*descriptorpb.OneofDescriptorProto{{Name: proto.String("choice")}}
	all.NestedType = []*descriptorpb.DescriptorProto{
		dyn.MapEntry("MSiEntry", dyn.F("key", 1, dyn.String), dyn.F("value", 2, dyn.Int32)),
		dyn.MapEntry("MSlEntry", dyn.F("key", 1, dyn.String), dyn.F("value", 2, dyn.Message, dyn.Of(".un.Leaf"))),
	}
	return []*descriptorpb.DescriptorProto{
		dyn.Msg("Leaf", dyn.F("label_text", 1, dyn.String), dyn.F("count", 2, dyn.Int32), dyn.F("blob_data", 3, dyn.Bytes), dyn.F("color", 4, dyn.Enum, dyn.Of(".un.Color"))),
		dyn.Msg("Nest", dyn.F("sub_title", 1, dyn.String), dyn.F("leaf", 2, dyn.Message, dyn.Of(".un.Leaf")), dyn.F("big_num", 3, dyn.Int64),
			dyn.F("word_list", 4, dyn.String, dyn.Rep()), dyn.F("ratio", 5, dyn.Double)),
		dyn.Msg("UploadReq", dyn.F("name", 1, dyn.String), dyn.F("file", 2, dyn.Message, dyn.Of(".google.api.HttpBody")), dyn.F("note", 3, dyn.String)),
		all,
	}
}

// Enums returns the universe enums.
func Enums() []*descriptorpb.EnumDescriptorProto {
	e := dyn.EnumT("Color", "COLOR_UNSPECIFIED", "RED", "GREEN")
	e.Value = append(e.Value, &descriptorpb.EnumValueDescriptorProto{Name: proto.String("BLUE"), Number: proto.Int32(5)})
	return []*descriptorpb.EnumDescriptorProto{e}
}

var (
	baseOnce sync.Once
	baseFD   protoreflect.FileDescriptor
	baseW    *dyn.World
)

// BaseFile returns the file descriptor proto holding only the messages.
func BaseFile() *descriptorpb.FileDescriptorProto {
	return dyn.File("un.proto", Pkg, Messages(), Enums(), nil)
}

// Base returns a world with only the message types (shared, read-only).
func Base() *dyn.World {
	baseOnce.Do(func() {
		w, err := dyn.NewWorld(BaseFile())
		if err != nil {
			panic(err)
		}
		baseW = w
	})
	return baseW
}

// WorldWith compiles the universe plus services declared in a second file
// "unsvc.proto" (package un) that imports it.
func WorldWith(svcs ...*descriptorpb.ServiceDescriptorProto) *dyn.World {
	svcFile := dyn.File("unsvc.proto", Pkg, nil, nil, svcs)
	svcFile.Dependency = append(svcFile.Dependency, "un.proto")
	w, err := dyn.NewWorld(BaseFile(), svcFile)
	if err != nil {
		panic(err)
	}
	return w
}

// ---------------------------------------------------------------------------
// Message generation

// Profile steers GenMessage.
type Profile struct {
	URLOnly   bool // only fields expressible in a URL (no maps, no repeated messages, no HttpBody)
	NoInf     bool // no +-Inf
	PathSafe  bool // strings from the path alphabet only (used for path-bound values)
	MaxBytes  int  // max length of strings/bytes (default 12)
	FillProb  int  // percent chance each field is set (default 35)
	NoControl bool // no control characters in strings
	Skip      map[string]bool
}

const pathAlphabet = "abcdefghijklmnopqrstuvwxyzABCDEFGHIJKLMNOPQRSTUVWXYZ0123456789.-_~!$&'()*+,;=@"

func genString(t *rapid.T, p Profile, label string) string {
	max := p.MaxBytes
	if max == 0 {
		max = 12
	}
	if p.PathSafe {
		n := rapid.IntRange(1, 8).Draw(t, label+"n")
		var sb strings.Builder
		for i := 0; i < n; i++ {
			sb.WriteByte(pathAlphabet[rapid.IntRange(0, len(pathAlphabet)-1).Draw(t, label)])
		}
		return sb.String()
	}
	switch rapid.IntRange(0, 9).Draw(t, label+"k") {
	case 0:
		return ""
	case 1:
		return rapid.SampledFrom([]string{"a", "é", "日本", "a b", "x&y=z", "100%", "a/b", "\"q\"", "\"", "null", "true", "1", "{}", "a,b", "?#", "+", "😀"}).Draw(t, label)
	case 2:
		if !p.NoControl {
			return rapid.SampledFrom([]string{"tab\there", "nl\nx", "bell\a", "\x01", "del\x7f", "​"}).Draw(t, label)
		}
	}
	s := rapid.StringN(0, max, max*4).Draw(t, label)
	s = strings.ToValidUTF8(s, "?")
	if p.NoControl {
		s = strings.Map(func(r rune) rune {
			if r < 0x20 || r == 0x7f {
				return '_'
			}
			return r
		}, s)
	}
	return s
}

func genBytes(t *rapid.T, p Profile, label string) []byte {
	max := p.MaxBytes
	if max == 0 {
		max = 12
	}
	return rapid.SliceOfN(rapid.Byte(), 0, max).Draw(t, label)
}

func genFloat64(t *rapid.T, p Profile, label string) float64 {
	opts := []float64{0, 1, -1, 0.5, 1.5, -2.25, 1e21, 1e-7, math.MaxFloat64, -math.MaxFloat64, math.SmallestNonzeroFloat64, 9007199254740993, 123456.789, math.Copysign(0, -1)}
	if !p.NoInf {
		opts = append(opts, math.Inf(1), math.Inf(-1))
	}
	if rapid.Bool().Draw(t, label+"b") {
		return rapid.SampledFrom(opts).Draw(t, label)
	}
	f := rapid.Float64().Draw(t, label)
	if math.IsNaN(f) || (p.NoInf && math.IsInf(f, 0)) {
		return 2.5
	}
	return f
}

func genFloat32(t *rapid.T, p Profile, label string) float32 {
	opts := []float32{0, 1, -1, 0.5, 3.25, math.MaxFloat32, -math.MaxFloat32, math.SmallestNonzeroFloat32, 16777217, float32(math.Copysign(0, -1))}
	if !p.NoInf {
		opts = append(opts, float32(math.Inf(1)), float32(math.Inf(-1)))
	}
	if rapid.Bool().Draw(t, label+"b") {
		return rapid.SampledFrom(opts).Draw(t, label)
	}
	f := rapid.Float32().Draw(t, label)
	if f != f || (p.NoInf && math.IsInf(float64(f), 0)) {
		return 2.5
	}
	return f
}

var enumNums = []protoreflect.EnumNumber{0, 1, 2, 5, 5, 1, 7, -1}

// GenScalar draws a boundary-biased value for a scalar field kind.
func GenScalar(t *rapid.T, fd protoreflect.FieldDescriptor, p Profile, label string) protoreflect.Value {
	switch fd.Kind() {
	case protoreflect.BoolKind:
		return protoreflect.ValueOfBool(rapid.Bool().Draw(t, label))
	case protoreflect.Int32Kind, protoreflect.Sint32Kind, protoreflect.Sfixed32Kind:
		return protoreflect.ValueOfInt32(rapid.OneOf(rapid.Int32(), rapid.SampledFrom([]int32{0, 1, -1, math.MaxInt32, math.MinInt32, 100})).Draw(t, label))
	case protoreflect.Int64Kind, protoreflect.Sint64Kind, protoreflect.Sfixed64Kind:
		return protoreflect.ValueOfInt64(rapid.OneOf(rapid.Int64(), rapid.SampledFrom([]int64{0, 1, -1, math.MaxInt64, math.MinInt64, 1 << 31, 1<<53 + 1, -(1<<53 + 1)})).Draw(t, label))
	case protoreflect.Uint32Kind, protoreflect.Fixed32Kind:
		return protoreflect.ValueOfUint32(rapid.OneOf(rapid.Uint32(), rapid.SampledFrom([]uint32{0, 1, math.MaxUint32, 1 << 31})).Draw(t, label))
	case protoreflect.Uint64Kind, protoreflect.Fixed64Kind:
		return protoreflect.ValueOfUint64(rapid.OneOf(rapid.Uint64(), rapid.SampledFrom([]uint64{0, 1, math.MaxUint64, 1 << 63, 1<<53 + 1})).Draw(t, label))
	case protoreflect.FloatKind:
		return protoreflect.ValueOfFloat32(genFloat32(t, p, label))
	case protoreflect.DoubleKind:
		return protoreflect.ValueOfFloat64(genFloat64(t, p, label))
	case protoreflect.StringKind:
		return protoreflect.ValueOfString(genString(t, p, label))
	case protoreflect.BytesKind:
		return protoreflect.ValueOfBytes(genBytes(t, p, label))
	case protoreflect.EnumKind:
		return protoreflect.ValueOfEnum(rapid.SampledFrom(enumNums).Draw(t, label))
	}
	panic("not scalar: " + fd.FullName())
}

func isWKT(md protoreflect.MessageDescriptor) bool {
	return strings.HasPrefix(string(md.FullName()), "google.protobuf.")
}

// genWKT fills a well-known message.
func genWKT(t *rapid.T, m protoreflect.Message, p Profile, label string) {
	md := m.Descriptor()
	switch md.Name() {
	case "Timestamp":
		secs := rapid.OneOf(rapid.Int64Range(-62135596800, 253402300799), rapid.SampledFrom([]int64{0, 1, -1, -62135596800, 253402300799, 1600000000})).Draw(t, label+"s")
		nanos := rapid.SampledFrom([]int32{0, 0, 1, 999999999, 500000000, 123000000, 123456000}).Draw(t, label+"n")
		m.Set(md.Fields().ByName("seconds"), protoreflect.ValueOfInt64(secs))
		m.Set(md.Fields().ByName("nanos"), protoreflect.ValueOfInt32(nanos))
	case "Duration":
		secs := rapid.OneOf(rapid.Int64Range(-315576000000, 315576000000), rapid.SampledFrom([]int64{0, 1, -1, 315576000000, -315576000000})).Draw(t, label+"s")
		nanos := rapid.SampledFrom([]int32{0, 0, 1, 999999999, 500000000, 120000000}).Draw(t, label+"n")
		if secs < 0 {
			nanos = -nanos
		}
		m.Set(md.Fields().ByName("seconds"), protoreflect.ValueOfInt64(secs))
		m.Set(md.Fields().ByName("nanos"), protoreflect.ValueOfInt32(nanos))
	case "FieldMask":
		paths := m.Mutable(md.Fields().ByName("paths")).List()
		n := rapid.IntRange(0, 3).Draw(t, label+"n")
		for i := 0; i < n; i++ {
			paths.Append(protoreflect.ValueOfString(rapid.SampledFrom([]string{"f_string", "nest.big_num", "nest.leaf.label_text", "f_int32", "r_string", "a", "user.display_name"}).Draw(t, label)))
		}
	default: // wrappers
		fd := md.Fields().ByName("value")
		m.Set(fd, GenScalar(t, fd, p, label))
	}
}

// URLExpressible reports whether a field can be carried in a URL.
func URLExpressible(fd protoreflect.FieldDescriptor) bool {
	if fd.IsMap() {
		return false
	}
	if fd.Message() != nil {
		if fd.IsList() {
			return false
		}
		if isWKT(fd.Message()) {
			return true
		}
		return fd.Message().FullName() != "google.api.HttpBody" // nested message: via dotted leaves
	}
	return true
}

// GenInto fills m.
func GenInto(t *rapid.T, m protoreflect.Message, p Profile, prefix string, depth int) {
	fill := p.FillProb
	if fill == 0 {
		fill = 35
	}
	md := m.Descriptor()
	fds := md.Fields()
	oneofPicked := map[string]bool{}
	for i := 0; i < fds.Len(); i++ {
		fd := fds.Get(i)
		name := prefix + string(fd.Name())
		if p.Skip[name] {
			continue
		}
		if p.URLOnly && !URLExpressible(fd) {
			continue
		}
		if fd.Message() != nil && fd.Message().FullName() == "google.api.HttpBody" {
			continue
		}
		if rapid.IntRange(0, 99).Draw(t, name+"?") >= fill {
			continue
		}
		if od := fd.ContainingOneof(); od != nil {
			if oneofPicked[string(od.Name())] {
				continue
			}
			oneofPicked[string(od.Name())] = true
		}
		switch {
		case fd.IsMap():
			mp := m.Mutable(fd).Map()
			n := rapid.IntRange(0, 3).Draw(t, name+"n")
			for j := 0; j < n; j++ {
				k := protoreflect.ValueOfString(genString(t, Profile{NoControl: true, MaxBytes: 4}, name+"k")).MapKey()
				if fd.MapValue().Message() != nil {
					v := mp.NewValue()
					GenInto(t, v.Message(), p, name+".", depth+1)
					mp.Set(k, v)
				} else {
					mp.Set(k, GenScalar(t, fd.MapValue(), p, name+"v"))
				}
			}
		case fd.IsList():
			l := m.Mutable(fd).List()
			n := rapid.IntRange(1, 3).Draw(t, name+"n")
			for j := 0; j < n; j++ {
				if fd.Message() != nil {
					v := l.NewElement()
					GenInto(t, v.Message(), p, name+".", depth+1)
					l.Append(v)
				} else {
					l.Append(GenScalar(t, fd, p, name))
				}
			}
		case fd.Message() != nil:
			sub := m.Mutable(fd).Message()
			if isWKT(fd.Message()) {
				genWKT(t, sub, p, name)
			} else if depth < 3 {
				GenInto(t, sub, p, name+".", depth+1)
			}
		default:
			m.Set(fd, GenScalar(t, fd, p, name))
		}
	}
}

// GenMessage generates a message of the given type from the base world.
func GenMessage(t *rapid.T, md protoreflect.MessageDescriptor, p Profile) *dynamicpb.Message {
	m := dynamicpb.NewMessage(md)
	GenInto(t, m, p, "", 0)
	return m
}

// ---------------------------------------------------------------------------
// URL text

// TextOf renders a scalar / well-known value as its proto3-JSON text without
// surrounding quotes. variant selects among equivalent spellings.
func TextOf(fd protoreflect.FieldDescriptor, v protoreflect.Value, variant int) string {
	switch fd.Kind() {
	case protoreflect.BoolKind:
		return strconv.FormatBool(v.Bool())
	case protoreflect.Int32Kind, protoreflect.Sint32Kind, protoreflect.Sfixed32Kind, protoreflect.Int64Kind, protoreflect.Sint64Kind, protoreflect.Sfixed64Kind:
		return strconv.FormatInt(v.Int(), 10)
	case protoreflect.Uint32Kind, protoreflect.Fixed32Kind, protoreflect.Uint64Kind, protoreflect.Fixed64Kind:
		return strconv.FormatUint(v.Uint(), 10)
	case protoreflect.FloatKind:
		return strconv.FormatFloat(v.Float(), 'g', -1, 32)
	case protoreflect.DoubleKind:
		return strconv.FormatFloat(v.Float(), 'g', -1, 64)
	case protoreflect.StringKind:
		return v.String()
	case protoreflect.BytesKind:
		return b64(v.Bytes(), variant)
	case protoreflect.EnumKind:
		if ev := fd.Enum().Values().ByNumber(v.Enum()); ev != nil && variant%2 == 0 {
			return string(ev.Name())
		}
		return strconv.Itoa(int(v.Enum()))
	case protoreflect.MessageKind:
		m := v.Message()
		md := fd.Message()
		switch md.Name() {
		case "StringValue":
			s := m.Get(md.Fields().ByName("value")).String()
			if s == "" || (len(s) >= 2 && s[0] == '"' && s[len(s)-1] == '"') || s == "\"" {
				b, _ := protojson.Marshal(m.Interface())
				return string(b)
			}
			return s
		case "BytesValue":
			bs := m.Get(md.Fields().ByName("value")).Bytes()
			if len(bs) == 0 {
				return `""`
			}
			return b64(bs, variant)
		case "Timestamp", "Duration", "FieldMask":
			b, err := protojson.Marshal(m.Interface())
			if err != nil {
				panic(fmt.Sprintf("TextOf %s: %v", md.Name(), err))
			}
			s := string(b)
			if s == `""` {
				return s // empty FieldMask: the bare form would be an empty string
			}
			return strings.TrimSuffix(strings.TrimPrefix(s, `"`), `"`)
		default: // numeric / bool wrappers
			return TextOf(md.Fields().ByName("value"), m.Get(md.Fields().ByName("value")), variant)
		}
	}
	panic("TextOf: unsupported " + fd.FullName())
}

func b64(b []byte, variant int) string {
	switch variant % 4 {
	case 0:
		return base64.StdEncoding.EncodeToString(b)
	case 1:
		return base64.RawStdEncoding.EncodeToString(b)
	case 2:
		return base64.URLEncoding.EncodeToString(b)
	}
	return base64.RawURLEncoding.EncodeToString(b)
}

// Leaf is one URL-borne (key path, text) pair.
type LeafKV struct {
	Path []protoreflect.FieldDescriptor
	Text string
}

// Flatten lists the populated URL-expressible leaves of m (repeated values in
// order). variant is used for spelling choices.
func Flatten(m protoreflect.Message, prefix []protoreflect.FieldDescriptor, variant int) []LeafKV {
	var out []LeafKV
	fds := m.Descriptor().Fields()
	for i := 0; i < fds.Len(); i++ {
		fd := fds.Get(i)
		if !m.Has(fd) {
			continue
		}
		path := append(append([]protoreflect.FieldDescriptor{}, prefix...), fd)
		switch {
		case fd.IsMap():
			panic("Flatten: map field set")
		case fd.IsList():
			l := m.Get(fd).List()
			for j := 0; j < l.Len(); j++ {
				out = append(out, LeafKV{path, TextOf(fd, l.Get(j), variant+j)})
			}
		case fd.Message() != nil && !isWKT(fd.Message()):
			out = append(out, Flatten(m.Get(fd).Message(), path, variant)...)
		default:
			out = append(out, LeafKV{path, TextOf(fd, m.Get(fd), variant+i)})
		}
	}
	return out
}

// Key spells a field path with proto names (json=false) or JSON names.
func Key(path []protoreflect.FieldDescriptor, json bool) string {
	parts := make([]string, len(path))
	for i, fd := range path {
		if json {
			parts[i] = fd.JSONName()
		} else {
			parts[i] = string(fd.Name())
		}
	}
	return strings.Join(parts, ".")
}

// PruneEmpty clears singular non-well-known message fields that hold an
// empty message (a URL cannot express "present but empty").
func PruneEmpty(m protoreflect.Message) {
	fds := m.Descriptor().Fields()
	for i := 0; i < fds.Len(); i++ {
		fd := fds.Get(i)
		if fd.Message() == nil || fd.IsList() || fd.IsMap() || !m.Has(fd) || isWKT(fd.Message()) {
			continue
		}
		sub := m.Mutable(fd).Message()
		PruneEmpty(sub)
		if proto.Size(sub.Interface()) == 0 {
			m.Clear(fd)
		}
	}
}
