// C13 — concurrent requests are isolated and the serving paths are race-free.
package c13

import (
	"bytes"
	"context"
	"crypto/sha256"
	"encoding/base64"
	"errors"
	"fmt"
	"io"
	"net/http"
	"os"
	"runtime"
	"strconv"
	"strings"
	"sync"
	"sync/atomic"
	"testing"
	"time"

	"google.golang.org/genproto/googleapis/api/annotations"
	"google.golang.org/genproto/googleapis/api/httpbody"
	"google.golang.org/grpc"
	"google.golang.org/grpc/metadata"
	"google.golang.org/protobuf/encoding/protojson"
	"google.golang.org/protobuf/proto"
	"google.golang.org/protobuf/reflect/protoreflect"
	"google.golang.org/protobuf/types/dynamicpb"
	"larking.io/larking"
	"pgregory.net/rapid"

	"verif/drive"
	"verif/dyn"
	"verif/evid"
	"verif/fixture"
	"verif/uni"
)

const prop = "C13"

func TestMain(m *testing.M) {
	code := m.Run()
	evid.Flush()
	os.Exit(code)
}

var (
	worldOnce sync.Once
	world     *dyn.World
)

func theWorld() *dyn.World {
	worldOnce.Do(func() {
		post := func(p, body string) *annotations.HttpRule {
			return &annotations.HttpRule{Pattern: &annotations.HttpRule_Post{Post: p}, Body: body}
		}
		world = uni.WorldWith(dyn.Svc("C13",
			dyn.MethodSpec{Name: "Echo", In: ".un.All", Out: ".un.All", Rule: post("/c13/echo", "*")},
			dyn.MethodSpec{Name: "Bidi", In: ".un.All", Out: ".un.All", ClientStream: true, ServerStream: true, Rule: post("/c13/bidi", "*")},
			dyn.MethodSpec{Name: "Raw", In: ".google.api.HttpBody", Out: ".google.api.HttpBody", Rule: post("/c13/raw", "*")},
			dyn.MethodSpec{Name: "Asset", In: ".un.All", Out: ".google.api.HttpBody", Rule: &annotations.HttpRule{Pattern: &annotations.HttpRule_Get{Get: "/c13/asset/{f_int32}"}}},
			// a reply object shared by all calls (a cached configuration), of which the rule selects a sub-message
			dyn.MethodSpec{Name: "Conf", In: ".un.All", Out: ".un.All", Rule: &annotations.HttpRule{Pattern: &annotations.HttpRule_Get{Get: "/c13/conf/{f_int32}"}, ResponseBody: "nest"}},
		))
	})
	return world
}

// payload builds the self-describing message (call id, sequence, size).
func payload(w *dyn.World, id, seq, size int) *dynamicpb.Message {
	md := w.MsgDesc("un.All")
	m := dynamicpb.NewMessage(md)
	b := filler(id, seq, size)
	sum := sha256.Sum256(b)
	m.Set(md.Fields().ByName("f_int32"), protoreflect.ValueOfInt32(int32(id)))
	m.Set(md.Fields().ByName("f_int64"), protoreflect.ValueOfInt64(int64(seq)))
	m.Set(md.Fields().ByName("f_bytes"), protoreflect.ValueOfBytes(b))
	m.Set(md.Fields().ByName("f_string"), protoreflect.ValueOfString(fmt.Sprintf("%d/%d/%d/%x", id, seq, size, sum[:6])))
	return m
}

func filler(id, seq, size int) []byte {
	b := make([]byte, size)
	x := uint32(id*2654435761 + seq*40503 + size)
	for i := range b {
		x = x*1664525 + 1013904223
		b[i] = byte(x >> 24)
	}
	return b
}

// verify checks that m is exactly payload(id, seq, size) for its own header.
func verify(m protoreflect.Message) (id, seq int, err error) {
	md := m.Descriptor()
	s := m.Get(md.Fields().ByName("f_string")).String()
	var size int
	var sum string
	if _, e := fmt.Sscanf(strings.ReplaceAll(s, "/", " "), "%d %d %d %s", &id, &seq, &size, &sum); e != nil {
		return 0, 0, fmt.Errorf("unparsable header %q", s)
	}
	if int(m.Get(md.Fields().ByName("f_int32")).Int()) != id || int(m.Get(md.Fields().ByName("f_int64")).Int()) != seq {
		return id, seq, fmt.Errorf("id/seq fields do not match the header %q", s)
	}
	b := m.Get(md.Fields().ByName("f_bytes")).Bytes()
	if !bytes.Equal(b, filler(id, seq, size)) {
		return id, seq, fmt.Errorf("filler of message %q corrupted (%d bytes)", s, len(b))
	}
	return id, seq, nil
}

// assetSizes are the sizes of the blobs the Asset method serves from memory
// that outlives the call (a static file, a cache entry): larking may read
// them, it must never write to them or hand them to a pool.
var assetSizes = []int{100, 1000, 3000}

// Trailer metadata of the streaming handlers: staticTrailer is one long-lived MD that every call hands to
// SetTrailer first (the handlers never write it), then each call sets its own id.
const trStatic, trID = "x-c13-static", "x-c13-id"

var staticTrailer = metadata.Pairs(trStatic, "s")

func pristineAsset(k int) []byte { return filler(9000+k, 0, assetSizes[k]) }

// ---------------------------------------------------------------------------
// (a) harness-owned interleavings

type CallSpec struct {
	Transport string `json:"transport"` // grpc | grpc-gzip | grpcweb | httpjson | httpproto | httpjson-gzip
	Sizes     []int  `json:"sizes"`     // filler size of each message
	// foreign: the call is answered by a fixture backend, whose handlers set no trailer metadata
	foreign bool
}

type ICase struct {
	Calls []CallSpec `json:"calls"`
	Order []int      `json:"order"` // which parked call to release next (index into the sorted parked set, modulo)
	Limit int        `json:"limit"` // receive limit (pool-drop threshold)
}

type gate struct {
	mu      sync.Mutex
	parked  map[int]chan struct{}
	arrived chan int
}

func (g *gate) park(id int) {
	ch := make(chan struct{})
	g.mu.Lock()
	g.parked[id] = ch
	g.mu.Unlock()
	g.arrived <- id
	<-ch
}

func encodeCall(w *dyn.World, id int, cs CallSpec) (*http.Request, error) {
	var body bytes.Buffer
	hdr := http.Header{}
	gz := strings.HasSuffix(cs.Transport, "-gzip")
	switch {
	case cs.Transport == "asset":
		return drive.Request("GET", fmt.Sprintf("/c13/asset/%d", cs.Sizes[0]%len(assetSizes)), "", hdr, nil, 0), nil
	case cs.Transport == "oversize":
		// a unary body over the receive limit: refused, and whatever it leaves behind in the
		// pools must not hurt the calls that are parked meanwhile
		hdr.Set("Content-Type", "application/json")
		b, _ := protojson.Marshal(payload(w, id, 0, cs.Sizes[0]))
		return drive.Request("POST", "/c13/echo", "", hdr, bytes.NewReader(b), int64(len(b))), nil
	case strings.HasPrefix(cs.Transport, "grpc"):
		for seq, sz := range cs.Sizes {
			b, _ := proto.Marshal(payload(w, id, seq, sz))
			body.Write(drive.GRPCFrame(b, gz))
		}
		if gz {
			hdr.Set("Grpc-Encoding", "gzip")
		}
		if strings.HasPrefix(cs.Transport, "grpcweb") {
			hdr.Set("Content-Type", "application/grpc-web+proto")
			return drive.Request("POST", "/un.C13/Bidi", "", hdr, bytes.NewReader(body.Bytes()), -1), nil
		}
		return drive.GRPCRequest("/un.C13/Bidi", hdr, bytes.NewReader(body.Bytes()), "application/grpc"), nil
	case strings.HasPrefix(cs.Transport, "httpjson"):
		hdr.Set("Content-Type", "application/json")
		for seq, sz := range cs.Sizes {
			b, _ := protojson.Marshal(payload(w, id, seq, sz))
			body.Write(b)
		}
	case strings.HasPrefix(cs.Transport, "httpproto"):
		hdr.Set("Content-Type", "application/protobuf")
		for seq, sz := range cs.Sizes {
			b, _ := proto.Marshal(payload(w, id, seq, sz))
			larking.CodecProto{}.WriteNext(&body, b)
		}
	}
	b := body.Bytes()
	if gz {
		hdr.Set("Content-Encoding", "gzip")
		b = drive.Gzip(b)
	}
	return drive.Request("POST", "/c13/bidi", "", hdr, bytes.NewReader(b), -1), nil
}

func decodeReplies(w *dyn.World, cs CallSpec, res drive.Result) (out []protoreflect.Message, rerr error) {
	md := w.MsgDesc("un.All")
	b := res.Rec.Body.Bytes()
	switch {
	case strings.HasPrefix(cs.Transport, "grpc"):
		frames, err := drive.ParseFrames(b)
		if err != nil {
			return nil, err
		}
		// the handler's trailer metadata: a long-lived MD shared by all calls, then this call's id
		var trailers map[string][]string
		if !strings.HasPrefix(cs.Transport, "grpcweb") && len(res.Trailer.Values("Grpc-Status")) > 0 {
			trailers = map[string][]string{trStatic: res.Trailer.Values(trStatic), trID: res.Trailer.Values(trID)}
		}
		defer func() {
			if rerr != nil || trailers == nil || len(out) == 0 || cs.foreign {
				return
			}
			id, _, verr := verify(out[0])
			if verr != nil {
				return
			}
			if got := trailers[trStatic]; len(got) != 1 || got[0] != "s" {
				out, rerr = nil, fmt.Errorf("trailer %s is %q, the handler set [\"s\"] (its long-lived trailer metadata)", trStatic, got)
			} else if got := trailers[trID]; len(got) != 1 || got[0] != strconv.Itoa(id) {
				out, rerr = nil, fmt.Errorf("trailer %s is %q, the handler of call %d set [%q]: trailer metadata of another call", trID, got, id, strconv.Itoa(id))
			}
		}()
		for _, f := range frames {
			if f.Flag&0x80 != 0 {
				// the gRPC-web trailer frame is part of the response too: nothing but this call's own trailers
				tr, err := drive.ParseWebTrailer(f.Payload)
				if err != nil {
					return nil, fmt.Errorf("trailer frame is not a header block: %v (%q)", err, trunc(f.Payload))
				}
				for k := range tr {
					if k != "grpc-status" && k != "grpc-message" && k != "grpc-status-details-bin" && k != trStatic && k != trID {
						return nil, fmt.Errorf("trailer frame carries %q, which this call never set (%q)", k, trunc(f.Payload))
					}
				}
				trailers = tr
				continue
			}
			m := dynamicpb.NewMessage(md)
			if err := proto.Unmarshal(f.Payload, m); err != nil {
				return nil, err
			}
			out = append(out, m)
		}
	case strings.HasPrefix(cs.Transport, "httpjson"):
		dec := newJSONSplitter(b)
		for {
			raw, ok := dec()
			if !ok {
				break
			}
			m := dynamicpb.NewMessage(md)
			if err := protojson.Unmarshal(raw, m); err != nil {
				return nil, err
			}
			out = append(out, m)
		}
	default:
		rd := bytes.NewReader(b)
		for rd.Len() > 0 {
			var buf []byte
			var n int
			var err error
			buf, n, err = larking.CodecProto{}.ReadNext(nil, rd, 1<<30)
			if err != nil {
				return nil, err
			}
			m := dynamicpb.NewMessage(md)
			if err := proto.Unmarshal(buf[:n], m); err != nil {
				return nil, err
			}
			out = append(out, m)
		}
	}
	return out, nil
}

func newJSONSplitter(b []byte) func() ([]byte, bool) {
	pos := 0
	return func() ([]byte, bool) {
		depth, inStr, esc := 0, false, false
		start := -1
		for i := pos; i < len(b); i++ {
			c := b[i]
			switch {
			case esc:
				esc = false
			case inStr:
				if c == '\\' {
					esc = true
				} else if c == '"' {
					inStr = false
				}
			case c == '"':
				inStr = true
			case c == '{':
				if depth == 0 {
					start = i
				}
				depth++
			case c == '}':
				depth--
				if depth == 0 {
					pos = i + 1
					return b[start : i+1], true
				}
			}
		}
		return nil, false
	}
}

func CheckInterleave(c ICase) ([]evid.Violation, bool) {
	// sync.Pool is per-P: with one P the pooled buffers and (de)compressors a
	// call gets are a deterministic function of the drawn interleaving.
	defer runtime.GOMAXPROCS(runtime.GOMAXPROCS(1))
	w := theWorld()
	fail := func(clause, sig, f string, a ...any) ([]evid.Violation, bool) {
		return []evid.Violation{evid.V(clause, "interleave:"+sig, f, a...)}, true
	}
	g := &gate{parked: map[int]chan struct{}{}, arrived: make(chan int, 64)}
	type held struct {
		id  int
		msg *dynamicpb.Message
	}
	var hmu sync.Mutex
	var allHeld []held
	var herrs []string
	stream := func(full string, in, out protoreflect.MessageDescriptor, ss grpc.ServerStream) error {
		id := -1
		for {
			m := dynamicpb.NewMessage(in)
			if id >= 0 {
				g.park(id) // before every RecvMsg (except the first: id unknown yet)
			}
			if err := ss.RecvMsg(m); err != nil {
				if err == io.EOF {
					return nil
				}
				return err
			}
			mid, _, err := verify(m)
			if err != nil {
				hmu.Lock()
				herrs = append(herrs, "on receipt: "+err.Error())
				hmu.Unlock()
			}
			if id < 0 {
				id = mid
				ss.SetTrailer(staticTrailer)
				ss.SetTrailer(metadata.Pairs(trID, strconv.Itoa(id)))
			}
			hmu.Lock()
			allHeld = append(allHeld, held{id, m})
			hmu.Unlock()
			g.park(id) // before every SendMsg
			if err := ss.SendMsg(m); err != nil {
				return err
			}
		}
	}
	opts := []larking.MuxOption{larking.FilesOption(w.Files)}
	if c.Limit > 0 {
		opts = append(opts, larking.MaxReceiveMessageSizeOption(c.Limit))
	}
	mux, err := larking.NewMux(opts...)
	if err != nil {
		panic(err)
	}
	assets := make([][]byte, len(assetSizes))
	for k := range assets {
		assets[k] = pristineAsset(k)
	}
	unary := func(ctx context.Context, fm string, req *dynamicpb.Message) (proto.Message, error) {
		k := int(req.Get(req.Descriptor().Fields().ByName("f_int32")).Int()) % len(assets)
		return &httpbody.HttpBody{ContentType: "application/octet-stream", Data: assets[k]}, nil
	}
	if err := mux.VerifRegisterService(w.ServiceDesc("un.C13", unary, stream), nil); err != nil {
		panic(err)
	}
	results := make([]drive.Result, len(c.Calls))
	done := make(chan int, len(c.Calls))
	// The scheduler either starts the next call or releases a parked one;
	// between two scheduling decisions exactly one call runs.
	running, started := 0, 0
	overlap := false
	await := func(what string, id int) string {
		select {
		case <-g.arrived:
		case <-done:
			running--
		case <-time.After(10 * time.Second):
			return fmt.Sprintf("call %d neither parked nor finished after %s", id, what)
		}
		return ""
	}
	start := func() string {
		id := started
		started++
		req, _ := encodeCall(w, id, c.Calls[id])
		go func() {
			results[id] = drive.Serve(mux, req)
			done <- id
		}()
		running++
		return await("start", id)
	}
	for step := 0; running > 0 || started < len(c.Calls); step++ {
		g.mu.Lock()
		var ids []int
		for id := range g.parked {
			ids = append(ids, id)
		}
		g.mu.Unlock()
		sortInts(ids)
		if len(ids) > 1 {
			overlap = true
		}
		choices := len(ids)
		if started < len(c.Calls) {
			choices++
		}
		if choices == 0 {
			return fail("hang", "nothing-parked", "%d calls running but none parked", running)
		}
		k := c.Order[step%len(c.Order)] % choices
		if k == len(ids) {
			if msg := start(); msg != "" {
				return fail("hang", "call-did-not-park", "%s", msg)
			}
			continue
		}
		pick := ids[k]
		g.mu.Lock()
		ch := g.parked[pick]
		delete(g.parked, pick)
		g.mu.Unlock()
		close(ch)
		if msg := await("release", pick); msg != "" {
			return fail("hang", "released-call-stuck", "%s", msg)
		}
	}
	// every held message still verifies after all other calls completed
	for _, h := range allHeld {
		mid, seq, err := verify(h.msg)
		if err != nil || mid != h.id {
			return fail("isolation", "held-message-corrupted", "message held by call %d (seq %d) no longer verifies after the other calls ran: %v", h.id, seq, err)
		}
	}
	if len(herrs) > 0 {
		return fail("isolation", "received-message-corrupted", "%s", herrs[0])
	}
	for k := range assets {
		if !bytes.Equal(assets[k], pristineAsset(k)) {
			return fail("isolation", "handler-memory-overwritten", "the %d-byte blob the Asset handler serves from its own memory was overwritten while other requests ran", len(assets[k]))
		}
	}
	for id, cs := range c.Calls {
		res := results[id]
		if res.Panic != nil {
			return fail("panic", res.PanicSig(), "call %d panicked: %v", id, res.Panic)
		}
		if cs.Transport == "oversize" {
			continue // refused (or, below the limit, answered): only its side effects on the others matter
		}
		if cs.Transport == "asset" {
			k := cs.Sizes[0] % len(assetSizes)
			if res.Rec.Code != 200 || !bytes.Equal(res.Rec.Body.Bytes(), pristineAsset(k)) {
				return fail("isolation", "asset-response-differs", "call %d: download of asset %d answered %d with %d bytes that are not the asset (%q...)", id, k, res.Rec.Code, res.Rec.Body.Len(), trunc(res.Rec.Body.Bytes()))
			}
			continue
		}
		over := false
		for _, sz := range cs.Sizes {
			enc := sz + 160 // message + framing + gzip expansion of random filler
			if strings.HasPrefix(cs.Transport, "httpjson") {
				enc = sz*4/3 + 200 // base64 in JSON
			}
			if c.Limit > 0 && enc > c.Limit {
				over = true
			}
		}
		if over {
			continue // near/over the limit: refusal is legitimate, isolation of the others is what matters
		}
		replies, err := decodeReplies(w, cs, res)
		if err != nil {
			return fail("isolation", "response-undecodable", "call %d (%s): %v (status %d)", id, cs.Transport, err, res.Rec.Code)
		}
		if len(replies) != len(cs.Sizes) {
			return fail("isolation", "reply-count", "call %d (%s) got %d replies for %d messages (status %d %q)", id, cs.Transport, len(replies), len(cs.Sizes), res.Rec.Code, trunc(res.Rec.Body.Bytes()))
		}
		for seq, r := range replies {
			mid, mseq, err := verify(r)
			if err != nil || mid != id || mseq != seq {
				return fail("isolation", "response-of-other-request", "call %d reply %d verifies as (id %d, seq %d, err %v)", id, seq, mid, mseq, err)
			}
		}
	}
	return nil, overlap
}

func trunc(b []byte) []byte {
	if len(b) > 100 {
		return b[:100]
	}
	return b
}

func sortInts(a []int) {
	for i := 1; i < len(a); i++ {
		for j := i; j > 0 && a[j] < a[j-1]; j-- {
			a[j], a[j-1] = a[j-1], a[j]
		}
	}
}

var transports = []string{"grpc", "grpc-gzip", "grpcweb", "grpcweb-gzip", "httpjson", "httpproto", "httpjson-gzip", "httpproto-gzip"}

func TestPropInterleave(t *testing.T) {
	rapid.Check(t, func(t *rapid.T) {
		var c ICase
		c.Limit = rapid.SampledFrom([]int{0, 0, 2048, 1200}).Draw(t, "limit")
		k := rapid.IntRange(2, 6).Draw(t, "k")
		pooled := false
		for i := 0; i < k; i++ {
			cs := CallSpec{Transport: rapid.SampledFrom(transports).Draw(t, "transport")}
			if c.Limit > 0 && rapid.IntRange(0, 7).Draw(t, "oversize") == 0 {
				c.Calls = append(c.Calls, CallSpec{Transport: "oversize", Sizes: []int{c.Limit + rapid.SampledFrom([]int{1, 100, 3000}).Draw(t, "over")}})
				continue
			}
			if rapid.IntRange(0, 5).Draw(t, "asset") == 0 {
				cs = CallSpec{Transport: "asset", Sizes: []int{rapid.IntRange(0, len(assetSizes)-1).Draw(t, "assetK")}}
				c.Calls = append(c.Calls, cs)
				continue
			}
			n := rapid.IntRange(1, 4).Draw(t, "n")
			for j := 0; j < n; j++ {
				sz := rapid.SampledFrom([]int{0, 1, 10, 20, 25, 63, 64, 65, 100, 1000, 1024, 1100, 1150, 1990, 2000, 2040, 5000}).Draw(t, "size")
				if sz <= 1100 {
					pooled = true
				}
				cs.Sizes = append(cs.Sizes, sz)
			}
			c.Calls = append(c.Calls, cs)
		}
		n := rapid.IntRange(1, 16).Draw(t, "norder")
		for i := 0; i < n; i++ {
			c.Order = append(c.Order, rapid.IntRange(0, 4).Draw(t, "pick"))
		}
		vs, overlap := CheckInterleave(c)
		key := ""
		if overlap && pooled {
			key = fmt.Sprintf("i|%v|%v|%d", c.Calls, c.Order, c.Limit)
		}
		evid.Eval(key, "interleave")
		evid.Sample("interleave", c)
		evid.Report(t, prop, map[string]any{"kind": "interleave", "interleave": c}, vs)
	})
}

// ---------------------------------------------------------------------------
// (b) seeded stress (race build)

type SPlan struct {
	Workers int   `json:"workers"`
	Calls   int   `json:"calls"`
	Seed    int64 `json:"seed"` // drives per-call choices deterministically
}

var (
	proxyOnce sync.Once
)

type failingReader struct {
	r      io.Reader
	after  int
	n      int
	onFail func() // a broken client connection also cancels the request context
}

var errInjected = errors.New("injected body failure")

// slowReader trickles its data one small read at a time.
type slowReader struct {
	data  []byte
	delay time.Duration
}

func (s *slowReader) Read(p []byte) (int, error) {
	if len(s.data) == 0 {
		return 0, io.EOF
	}
	time.Sleep(s.delay)
	n := copy(p, s.data[:min(len(s.data), 7)])
	s.data = s.data[n:]
	return n, nil
}

func (f *failingReader) Read(p []byte) (int, error) {
	if f.n >= f.after {
		if f.onFail != nil {
			f.onFail()
		}
		return 0, errInjected
	}
	if len(p) > f.after-f.n {
		p = p[:f.after-f.n]
	}
	n, err := f.r.Read(p)
	f.n += n
	return n, err
}

func CheckStress(p SPlan) ([]evid.Violation, int, int) {
	w := theWorld()
	fixture.Setup()

	mux, err := larking.NewMux(larking.FilesOption(w.Files))
	if err != nil {
		panic(err)
	}
	// replies the Conf handler keeps in its own memory and returns to every caller that asks for the same k
	// (a cached configuration): even k leave the sub-message the rule selects unset, odd k have it
	// populated. The server may only read them. Each burst of concurrent callers gets a fresh k.
	md := w.MsgDesc("un.All")
	conf := make([]*dynamicpb.Message, 512)
	for k := range conf {
		conf[k] = dynamicpb.NewMessage(md)
		conf[k].Set(md.Fields().ByName("f_string"), protoreflect.ValueOfString("shared"))
		if k%2 == 1 {
			nest := conf[k].Mutable(md.Fields().ByName("nest")).Message()
			nest.Set(nest.Descriptor().Fields().ByName("sub_title"), protoreflect.ValueOfString("shared-conf"))
		}
	}
	var bursts atomic.Int64
	unary := func(ctx context.Context, fm string, req *dynamicpb.Message) (proto.Message, error) {
		if strings.HasSuffix(fm, "/Raw") {
			return req, nil
		}
		if strings.HasSuffix(fm, "/Conf") {
			return conf[int(req.Get(md.Fields().ByName("f_int32")).Int())%len(conf)], nil
		}
		if _, _, err := verify(req); err != nil {
			return nil, err
		}
		return req, nil
	}
	stream := func(full string, in, out protoreflect.MessageDescriptor, ss grpc.ServerStream) error {
		first := true
		for {
			m := dynamicpb.NewMessage(in)
			if err := ss.RecvMsg(m); err != nil {
				if err == io.EOF {
					return nil
				}
				return err
			}
			id, _, err := verify(m)
			if err != nil {
				return err
			}
			if first {
				first = false
				ss.SetTrailer(staticTrailer)
				ss.SetTrailer(metadata.Pairs(trID, strconv.Itoa(id)))
			}
			runtime.Gosched()
			if err := ss.SendMsg(m); err != nil {
				return err
			}
		}
	}
	if err := mux.VerifRegisterService(w.ServiceDesc("un.C13", unary, stream), nil); err != nil {
		panic(err)
	}
	// proxied method: SvcB via backend B1 (its files come from the backend's reflection)
	ctx, cancel := context.WithTimeout(context.Background(), 20*time.Second)
	defer cancel()
	if err := mux.RegisterConn(ctx, fixture.Backends["B1"].CC); err != nil {
		panic(err)
	}

	var mu sync.Mutex
	var bad []string
	report := func(f string, a ...any) {
		mu.Lock()
		if len(bad) < 5 {
			bad = append(bad, fmt.Sprintf(f, a...))
		}
		mu.Unlock()
	}
	var inflight, peak atomic.Int64
	var faults atomic.Int64
	before := runtime.NumGoroutine()
	var wg sync.WaitGroup
	for wk := 0; wk < p.Workers; wk++ {
		wg.Add(1)
		go func(wk int) {
			defer wg.Done()
			x := uint64(p.Seed)*6364136223846793005 + uint64(wk)*1442695040888963407 + 1
			next := func(n int) int {
				x = x*6364136223846793005 + 1442695040888963407
				return int((x >> 33) % uint64(n))
			}
			for i := 0; i < p.Calls; i++ {
				id := wk*100000 + i
				cur := inflight.Add(1)
				for {
					pk := peak.Load()
					if cur <= pk || peak.CompareAndSwap(pk, cur) {
						break
					}
				}
				kind := next(9)
				switch kind {
				case 8: // one reply object of the handler returned to three concurrent callers, narrowed by response_body
					k := int(bursts.Add(1)) % len(conf)
					want := []string{`{}`, `{"subTitle":"shared-conf"}`}[k%2]
					var bw sync.WaitGroup
					for j := 0; j < 3; j++ {
						bw.Add(1)
						go func() {
							defer bw.Done()
							res := drive.Serve(mux, drive.Request("GET", fmt.Sprintf("/c13/conf/%d", k), "", http.Header{}, nil, 0))
							if got := strings.Join(strings.Fields(res.Rec.Body.String()), ""); res.Rec.Code != 200 || got != want {
								report("shared-reply call %d: status %d body %q, want %s", id, res.Rec.Code, trunc(res.Rec.Body.Bytes()), want)
							}
						}()
					}
					bw.Wait()
				case 0, 1, 2: // streaming echo on a random transport
					cs := CallSpec{Transport: transports[next(len(transports))]}
					n := 1 + next(3)
					for j := 0; j < n; j++ {
						cs.Sizes = append(cs.Sizes, []int{0, 10, 63, 64, 65, 500, 1024, 3000, 20000}[next(9)])
					}
					req, _ := encodeCall(w, id, cs)
					fault := next(6) == 0
					if fault && strings.HasSuffix(cs.Transport, "-gzip") && next(2) == 0 {
						// a compressed message that does not inflate (bit flip inside the deflate data):
						// the call fails, everybody else must not notice
						faults.Add(1)
						raw, _ := io.ReadAll(req.Body)
						if at := 20 + next(16); at < len(raw) {
							raw[at] ^= byte(1 + next(255))
						}
						req.Body = io.NopCloser(bytes.NewReader(raw))
					} else if fault {
						faults.Add(1)
						req.Body = io.NopCloser(&failingReader{r: req.Body, after: 3 + next(40)})
					}
					res := drive.Serve(mux, req)
					if res.Panic != nil {
						report("panic in %s call: %v", cs.Transport, res.Panic)
						break
					}
					replies, err := decodeReplies(w, cs, res)
					if fault {
						// a prefix of correct replies is all that can be asked
						for seq, r := range replies {
							if mid, mseq, verr := verify(r); verr != nil || mid != id || mseq != seq {
								report("faulted call %d reply %d verifies as (%d,%d,%v)", id, seq, mid, mseq, verr)
							}
						}
						break
					}
					if err != nil || len(replies) != len(cs.Sizes) {
						report("call %d (%s): %d replies for %d messages, err %v, status %d", id, cs.Transport, len(replies), len(cs.Sizes), err, res.Rec.Code)
						break
					}
					for seq, r := range replies {
						if mid, mseq, verr := verify(r); verr != nil || mid != id || mseq != seq {
							report("call %d reply %d verifies as (%d,%d,%v)", id, seq, mid, mseq, verr)
						}
					}
				case 3, 4: // unary echo JSON / proto with optional gzip body
					sz := []int{0, 30, 64, 700, 5000}[next(5)]
					m := payload(w, id, 0, sz)
					hdr := http.Header{}
					var b []byte
					if next(2) == 0 {
						hdr.Set("Content-Type", "application/json")
						b, _ = protojson.Marshal(m)
					} else {
						hdr.Set("Content-Type", "application/protobuf")
						b, _ = proto.Marshal(m)
					}
					if next(2) == 0 {
						hdr.Set("Content-Encoding", "gzip")
						b = drive.Gzip(b)
					}
					res := drive.Serve(mux, drive.Request("POST", "/c13/echo", "", hdr, bytes.NewReader(b), int64(len(b))))
					out := dynamicpb.NewMessage(w.MsgDesc("un.All"))
					var derr error
					if hdr.Get("Content-Type") == "application/json" {
						derr = protojson.Unmarshal(res.Rec.Body.Bytes(), out)
					} else {
						derr = proto.Unmarshal(res.Rec.Body.Bytes(), out)
					}
					if mid, _, verr := verify(out); res.Rec.Code != 200 || derr != nil || verr != nil || mid != id {
						report("unary call %d: status %d decode %v verify %v id %d", id, res.Rec.Code, derr, verr, mid)
					}
				case 5: // HttpBody passthrough
					data := filler(id, 7, []int{1, 5, 64, 2000}[next(4)])
					hdr := http.Header{}
					hdr.Set("Content-Type", "application/x-c13")
					res := drive.Serve(mux, drive.Request("POST", "/c13/raw", "", hdr, bytes.NewReader(data), int64(len(data))))
					if res.Rec.Code != 200 || !bytes.Equal(res.Rec.Body.Bytes(), data) || res.Hdr.Get("Content-Type") != "application/x-c13" {
						report("HttpBody call %d: status %d, %d bytes back for %d sent, type %q", id, res.Rec.Code, res.Rec.Body.Len(), len(data), res.Hdr.Get("Content-Type"))
					}
				case 6: // proxied bidi stream, optionally with the client or the backend failing first
					n := 1 + next(4)
					failAt := -1
					mode := next(5) // 0,1 = clean; 2 = backend fails first; 3 = client body fails first; 4 = as 2, over a gzip-compressed HTTP/JSON upload
					if mode == 4 {
						// the backend fails on the last message of the first gzip member while the client is
						// still (slowly) uploading a second one: the proxy's request pump is then parked inside
						// the decompressor when the handler returns - it must stay this call's decompressor
						faults.Add(1)
						var js bytes.Buffer
						for seq := 0; seq < n; seq++ {
							m := payload(w, id, seq, []int{0, 10, 64, 700}[next(4)])
							if seq == n-1 {
								m.Set(m.Descriptor().Fields().ByName("f_int32"), protoreflect.ValueOfInt32(999))
							}
							b, _ := protojson.Marshal(m)
							js.Write(b)
						}
						tail, _ := protojson.Marshal(payload(w, id, n, 10))
						hdr := http.Header{"Content-Type": {"application/json"}, "Content-Encoding": {"gzip"}}
						body := io.MultiReader(bytes.NewReader(drive.Gzip(js.Bytes())), &slowReader{data: drive.Gzip(bytes.Repeat(tail, 3)), delay: time.Duration(50+next(400)) * time.Microsecond})
						res := drive.Serve(mux, drive.Request("POST", "/un.SvcS/Chat", "", hdr, body, -1))
						if res.Panic != nil {
							report("panic in proxied gzip upload: %v", res.Panic)
							break
						}
						split := newJSONSplitter(res.Rec.Body.Bytes())
						for seq := 0; seq < n-1; seq++ {
							raw, ok := split()
							r := dynamicpb.NewMessage(w.MsgDesc("un.All"))
							if !ok || protojson.Unmarshal(raw, r) != nil {
								report("proxied gzip upload %d: reply %d of %d missing or undecodable (status %d, body %q)", id, seq, n-1, res.Rec.Code, trunc(res.Rec.Body.Bytes()))
								break
							}
							if mid, mseq, verr := verify(r); verr != nil || mid != id || mseq != seq {
								report("proxied gzip upload %d reply %d verifies as (%d,%d,%v)", id, seq, mid, mseq, verr)
							}
						}
						break
					}
					var body bytes.Buffer
					for seq := 0; seq < n; seq++ {
						m := payload(w, id, seq, []int{0, 10, 64, 700, 5000}[next(5)])
						if mode == 2 && seq == n-1 {
							m.Set(m.Descriptor().Fields().ByName("f_int32"), protoreflect.ValueOfInt32(999))
							failAt = seq
						}
						b, _ := proto.Marshal(m)
						body.Write(drive.GRPCFrame(b, next(3) == 0 && false))
					}
					req := drive.GRPCRequest("/un.SvcS/Chat", nil, bytes.NewReader(body.Bytes()), "application/grpc")
					if mode == 3 {
						faults.Add(1)
						ctx, cancel := context.WithCancel(context.Background())
						defer cancel()
						req = req.WithContext(ctx)
						req.Body = io.NopCloser(&failingReader{r: req.Body, after: 3 + next(60), onFail: cancel})
					}
					if mode == 2 {
						faults.Add(1)
						// the backend fails on the LAST message while the client is
						// still (slowly) sending: the proxy's request pump is then
						// still running when the handler returns
						m := payload(w, id, n, 10)
						b, _ := proto.Marshal(m)
						tail := drive.GRPCFrame(b, false)
						req.Body = io.NopCloser(io.MultiReader(req.Body, &slowReader{data: bytes.Repeat(tail, 3), delay: time.Duration(50+next(400)) * time.Microsecond}))
					}
					res := drive.Serve(mux, req)
					if res.Panic != nil {
						report("panic in proxied stream: %v", res.Panic)
						break
					}
					replies, err := decodeReplies(w, CallSpec{Transport: "grpc", foreign: true}, res)
					want := n
					if failAt >= 0 {
						want = failAt
					}
					if mode == 3 {
						want = -1 // a prefix
					}
					if err != nil || (want >= 0 && len(replies) != want) {
						report("proxied stream %d: %d replies, want %d (mode %d), err %v, grpc-status %q", id, len(replies), want, mode, err, res.Trailer.Get("Grpc-Status"))
						break
					}
					for seq, r := range replies {
						if mid, mseq, verr := verify(r); verr != nil || mid != id || mseq != seq {
							report("proxied stream %d reply %d verifies as (%d,%d,%v)", id, seq, mid, mseq, verr)
						}
					}
					if mode == 2 && res.Trailer.Get("Grpc-Status") != "10" {
						report("proxied stream %d: backend failed with Aborted but grpc-status is %q", id, res.Trailer.Get("Grpc-Status"))
					}
				default: // proxied unary (HTTP JSON on the backend's annotation route is GET; use the implicit POST route)
					data := filler(id, 9, []int{0, 10, 64, 900}[next(4)])
					hdr := http.Header{}
					hdr.Set("Content-Type", "application/json")
					body := []byte(`{"fBytes":"` + base64.StdEncoding.EncodeToString(data) + `"}`)
					res := drive.Serve(mux, drive.Request("POST", "/un.SvcB/Ping", "", hdr, bytes.NewReader(body), int64(len(body))))
					out := dynamicpb.NewMessage(w.MsgDesc("un.All"))
					if res.Rec.Code != 200 || protojson.Unmarshal(res.Rec.Body.Bytes(), out) != nil ||
						!bytes.Equal(out.Get(out.Descriptor().Fields().ByName("f_bytes")).Bytes(), data) {
						report("proxied call %d: status %d body %q", id, res.Rec.Code, trunc(res.Rec.Body.Bytes()))
					}
				}
				inflight.Add(-1)
			}
		}(wk)
	}
	wg.Wait()
	// goroutines of finished calls must end (bounded settle loop)
	settled := false
	for i := 0; i < 100; i++ {
		if runtime.NumGoroutine() <= before+4 {
			settled = true
			break
		}
		time.Sleep(20 * time.Millisecond)
	}
	if !settled {
		evid.Count("goroutine-count-did-not-settle", 1)
	}
	if len(bad) > 0 {
		return []evid.Violation{evid.V("stress", "stress:"+strings.SplitN(bad[0], " ", 3)[0], "%s", strings.Join(bad, "\n  "))}, int(peak.Load()), int(faults.Load())
	}
	return nil, int(peak.Load()), int(faults.Load())
}

func TestPropStress(t *testing.T) {
	rapid.Check(t, func(t *rapid.T) {
		p := SPlan{
			Workers: rapid.IntRange(8, 32).Draw(t, "workers"),
			Calls:   rapid.IntRange(20, 60).Draw(t, "calls"),
			Seed:    rapid.Int64Range(1, 1<<40).Draw(t, "seed"),
		}
		vs, peak, faults := CheckStress(p)
		key := ""
		if peak >= 4 && faults >= 1 {
			key = fmt.Sprintf("s|%d|%d|%d", p.Workers, p.Calls, p.Seed)
		}
		evid.Eval(key, "stress-plan")
		evid.Count("calls", int64(p.Workers*p.Calls))
		evid.Count("injected-faults", int64(faults))
		evid.Sample("stress", map[string]any{"plan": p, "peak_concurrency": peak, "faults": faults})
		evid.Report(t, prop, map[string]any{"kind": "stress", "stress": p}, vs)
	})
}

type replay struct {
	Kind       string `json:"kind"`
	Interleave ICase  `json:"interleave"`
	Stress     SPlan  `json:"stress"`
}

func TestReplay(t *testing.T) {
	path := os.Getenv("VERIF_REPLAY")
	if path == "" {
		t.Skip("VERIF_REPLAY not set")
	}
	var c replay
	if err := evid.LoadReplay(path, &c); err != nil {
		t.Fatal(err)
	}
	switch c.Kind {
	case "interleave":
		vs, _ := CheckInterleave(c.Interleave)
		evid.Report(t, prop, c, vs)
	case "stress":
		var vs []evid.Violation
		for i := 0; i < 4 && len(vs) == 0; i++ {
			vs, _, _ = CheckStress(c.Stress)
		}
		evid.Report(t, prop, c, vs)
	}
}

var _ = httpbody.File_google_api_httpbody_proto
