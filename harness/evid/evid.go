// Package evid collects per-process evidence (counts, classes, samples) and
// routes violations through the known-findings list.
//
// One test process = one fragment file ($VERIF_FRAG). run.py merges fragments
// into /verif/evidence/<id>.json.
package evid

import (
	"bufio"
	"encoding/json"
	"fmt"
	"hash/fnv"
	"os"
	"sort"
	"strings"
	"sync"
)

// Violation is one failed oracle clause.
type Violation struct {
	Clause string `json:"clause"` // which oracle clause failed
	Sig    string `json:"sig"`    // stable signature used to match known findings
	Detail string `json:"detail"` // human-readable explanation
}

func (v Violation) String() string { return fmt.Sprintf("[%s] sig=%s %s", v.Clause, v.Sig, v.Detail) }

// V builds a violation; sig defaults to clause.
func V(clause, sig, format string, args ...any) Violation {
	if sig == "" {
		sig = clause
	}
	return Violation{Clause: clause, Sig: sig, Detail: fmt.Sprintf(format, args...)}
}

const maxDistinct = 400000
const maxSamples = 12

type rec struct {
	mu          sync.Mutex
	Evaluations int64            `json:"evaluations"`
	Nontrivial  int64            `json:"nontrivial"`
	Distinct    map[string]bool  `json:"-"`
	Classes     map[string]int64 `json:"classes"`
	Samples     []any            `json:"samples"`
	KnownHits   map[string]int64 `json:"known_hits"`
	Counters    map[string]int64 `json:"counters"`
	Violations  int64            `json:"violations"`
	Exhaustive  map[string]bool  `json:"exhaustive"`
	sampleSeen  map[string]int
}

var r = &rec{
	Distinct:   map[string]bool{},
	Classes:    map[string]int64{},
	KnownHits:  map[string]int64{},
	Counters:   map[string]int64{},
	Exhaustive: map[string]bool{},
	sampleSeen: map[string]int{},
}

var muted bool

// Mute switches counting off (used while rapid shrinks a failure).
func Mute(on bool) { r.mu.Lock(); muted = on; r.mu.Unlock() }

func hashKey(s string) string {
	h := fnv.New64a()
	h.Write([]byte(s))
	return fmt.Sprintf("%016x", h.Sum64())
}

// Eval records one evaluated case. nontrivKey is "" for a trivial case,
// otherwise the canonical key that makes the case distinct. classes are
// free-form labels for the class histogram.
func Eval(nontrivKey string, classes ...string) {
	r.mu.Lock()
	defer r.mu.Unlock()
	if muted {
		return
	}
	r.Evaluations++
	if nontrivKey != "" {
		r.Nontrivial++
		if len(r.Distinct) < maxDistinct {
			r.Distinct[hashKey(nontrivKey)] = true
		}
	}
	for _, c := range classes {
		r.Classes[c]++
	}
}

// Class bumps class labels without counting an evaluation.
func Class(classes ...string) {
	r.mu.Lock()
	defer r.mu.Unlock()
	if muted {
		return
	}
	for _, c := range classes {
		r.Classes[c]++
	}
}

// Count bumps a named counter.
func Count(name string, n int64) {
	r.mu.Lock()
	defer r.mu.Unlock()
	if muted {
		return
	}
	r.Counters[name] += n
}

// SetExhaustive marks a named finite sub-space as completely enumerated.
func SetExhaustive(name string) {
	r.mu.Lock()
	defer r.mu.Unlock()
	r.Exhaustive[name] = true
}

// Sample keeps up to two samples per kind and maxSamples in total.
func Sample(kind string, v any) {
	r.mu.Lock()
	defer r.mu.Unlock()
	if muted || len(r.Samples) >= maxSamples || r.sampleSeen[kind] >= 2 {
		return
	}
	r.sampleSeen[kind]++
	// Round-trip through JSON now so later mutation cannot change it.
	b, err := json.Marshal(v)
	if err != nil {
		return
	}
	var x any
	if json.Unmarshal(b, &x) == nil {
		r.Samples = append(r.Samples, map[string]any{"kind": kind, "case": x})
	}
}

// Flush writes the fragment to $VERIF_FRAG (no-op if unset).
func Flush() {
	path := os.Getenv("VERIF_FRAG")
	if path == "" {
		return
	}
	r.mu.Lock()
	defer r.mu.Unlock()
	keys := make([]string, 0, len(r.Distinct))
	for k := range r.Distinct {
		keys = append(keys, k)
	}
	sort.Strings(keys)
	out := map[string]any{
		"evaluations": r.Evaluations,
		"nontrivial":  r.Nontrivial,
		"distinct":    keys,
		"classes":     r.Classes,
		"samples":     r.Samples,
		"known_hits":  r.KnownHits,
		"counters":    r.Counters,
		"violations":  r.Violations,
		"exhaustive":  r.Exhaustive,
	}
	b, _ := json.Marshal(out)
	_ = os.WriteFile(path, b, 0o644)
}

// ---- known findings ----------------------------------------------------

type known struct {
	prop, sig string
}

var (
	knownOnce sync.Once
	knownList []known
)

func loadKnown() {
	path := os.Getenv("VERIF_KNOWN")
	if path == "" {
		path = "/verif/KNOWN_FINDINGS.txt"
	}
	f, err := os.Open(path)
	if err != nil {
		return
	}
	defer f.Close()
	sc := bufio.NewScanner(f)
	for sc.Scan() {
		line := strings.TrimSpace(sc.Text())
		if !strings.HasPrefix(line, "known:") {
			continue
		}
		var k known
		for _, f := range strings.Fields(line) {
			if strings.HasPrefix(f, "property=") {
				k.prop = strings.TrimPrefix(f, "property=")
			}
			if strings.HasPrefix(f, "sig=") {
				k.sig = strings.TrimPrefix(f, "sig=")
			}
		}
		if k.prop != "" && k.sig != "" {
			knownList = append(knownList, k)
		}
	}
}

// IsKnown reports whether (prop, sig) is a listed known finding.
func IsKnown(prop, sig string) bool {
	knownOnce.Do(loadKnown)
	for _, k := range knownList {
		if k.prop == prop && k.sig == sig {
			return true
		}
	}
	return false
}

// Fataler is the subset of testing.T / rapid.T we need.
type Fataler interface {
	Fatalf(format string, args ...any)
}

// Report filters vs through the known list. Unlisted violations are written
// (with the case) to $VERIF_FAILOUT and fail the test.
func Report(t Fataler, prop string, c any, vs []Violation) {
	var bad []Violation
	for _, v := range vs {
		if IsKnown(prop, v.Sig) {
			r.mu.Lock()
			if !muted {
				r.KnownHits[v.Sig]++
			}
			r.mu.Unlock()
			continue
		}
		bad = append(bad, v)
	}
	if len(bad) == 0 {
		return
	}
	r.mu.Lock()
	r.Violations++
	muted = true // everything after the first failure is shrinking
	r.mu.Unlock()
	if path := os.Getenv("VERIF_FAILOUT"); path != "" {
		out := map[string]any{"property": prop, "violations": bad, "case": c}
		if b, err := json.MarshalIndent(out, "", " "); err == nil {
			_ = os.WriteFile(path, b, 0o644)
		}
	}
	var sb strings.Builder
	for _, v := range bad {
		sb.WriteString("\n  " + v.String())
	}
	cb, _ := json.Marshal(c)
	if len(cb) > 4000 {
		cb = append(cb[:4000], "..."...)
	}
	t.Fatalf("property %s violated:%s\n  case: %s", prop, sb.String(), cb)
}

// LoadReplay reads a replay file: either {"case": ...} (as written by
// Report) or the bare case.
func LoadReplay(path string, c any) error {
	b, err := os.ReadFile(path)
	if err != nil {
		return err
	}
	var wrap struct {
		Case json.RawMessage `json:"case"`
	}
	if json.Unmarshal(b, &wrap) == nil && len(wrap.Case) > 0 {
		return json.Unmarshal(wrap.Case, c)
	}
	return json.Unmarshal(b, c)
}
