// C09 — robustness: no request can crash or wedge the server.
package c09

import (
	"bufio"
	"bytes"
	"context"
	"encoding/base64"
	"encoding/binary"
	"fmt"
	"github.com/gobwas/ws"
	"io"
	"net"
	"net/http"
	"net/http/httptest"
	"os"
	"strings"
	"sync"
	"testing"
	"time"
	"unicode/utf8"

	"google.golang.org/genproto/googleapis/api/annotations"
	"google.golang.org/genproto/googleapis/api/httpbody"
	"google.golang.org/genproto/googleapis/api/serviceconfig"
	"google.golang.org/grpc"
	"google.golang.org/grpc/codes"
	healthpb "google.golang.org/grpc/health/grpc_health_v1"
	"google.golang.org/grpc/metadata"
	"google.golang.org/grpc/stats"
	"google.golang.org/grpc/status"
	"google.golang.org/protobuf/encoding/protowire"
	"google.golang.org/protobuf/proto"
	"google.golang.org/protobuf/reflect/protoreflect"
	"google.golang.org/protobuf/reflect/protoregistry"
	"google.golang.org/protobuf/types/dynamicpb"
	"larking.io/health"
	"larking.io/larking"
	"pgregory.net/rapid"

	"verif/drive"
	"verif/dyn"
	"verif/evid"
	"verif/uni"
)

const prop = "C09"

func TestMain(m *testing.M) {
	code := m.Run()
	evid.Flush()
	os.Exit(code)
}

// Case is one request against one mux configuration.
type Case struct {
	Config  int         `json:"config"` // bit0 interceptors, bit1 stats handler, bit2 small limits
	Entry   string      `json:"entry"`  // http | grpc | grpcweb | grpcwebtext | ws
	Method  string      `json:"method"`
	Path    string      `json:"path"`
	Query   string      `json:"query"`
	Headers [][2]string `json:"headers"`
	Body    []byte      `json:"body"`
	Chunks  []int       `json:"chunks"`
	ErrRead bool        `json:"err_read"` // body ends with an injected error instead of EOF
	HMsg    int         `json:"hmsg"`     // which text the handler's status carries: 0 plain, 1 bytes that are not UTF-8 (any Go string can be a status message), 2 empty, 3 long
	HCode   uint32      `json:"hcode"`    // status code the handler returns (0 = OK)
	HSend   int         `json:"hsend"`    // replies a streaming handler sends
	HWait   bool        `json:"hwait"`    // the handler outlasts a short deadline: it waits for its context (at most 60 ms) before replying
	HMeta   bool        `json:"hmeta"`    // handler sets header/trailer metadata
}

var (
	worldOnce sync.Once
	world     *dyn.World
)

func rule(verb, path, body, resp string, add ...*annotations.HttpRule) *annotations.HttpRule {
	r := &annotations.HttpRule{Body: body, ResponseBody: resp, AdditionalBindings: add}
	switch verb {
	case "GET":
		r.Pattern = &annotations.HttpRule_Get{Get: path}
	case "POST":
		r.Pattern = &annotations.HttpRule_Post{Post: path}
	case "PATCH":
		r.Pattern = &annotations.HttpRule_Patch{Patch: path}
	default:
		r.Pattern = &annotations.HttpRule_Custom{Custom: &annotations.CustomHttpPattern{Kind: verb, Path: path}}
	}
	return r
}

// Templates of the fixed rule set (used by the path generator).
var templates = []string{
	"/c9/{f_string=**}", "/c9/a/{f_string=a/**}:verb", "/c9/b/{f_string=a/b/c/**}:verb", "/c9/int/{f_int32}", "/c9/typed/{f_uint64}/{f_bool}/{f_enum}",
	"/c9/nest/{nest.leaf.label_text}/x/{nest.big_num}", "/c9/bytes/{f_bytes}", "/c9/wk/{w_int32}/{dur}", "/c9/body", "/c9/bodyfield", "/c9/resp", "/c9/stream",
	"/c9/ws", "/c9/wsnobody", "/c9/upload/{name}", "/c9/download", "/c9/raw", "/c9/client", "/c9/server/{f_string}", "/c9/any/{f_string=*}/**", "/v1/healthz",
	"/c9/p/{f_string=sh/*/bk/*}", "/c9/p/{f_string=sh/*}", "/c9/q/{f_string=*/mid/**}:verb", "/c9/r/{f_string=*/*/*}",
}

func theWorld() *dyn.World {
	worldOnce.Do(func() {
		world = uni.WorldWith(dyn.Svc("C9",
			dyn.MethodSpec{Name: "U1", In: ".un.All", Out: ".un.All", Rule: rule("GET", "/c9/{f_string=**}", "", "",
				rule("GET", "/c9/a/{f_string=a/**}:verb", "", ""), rule("GET", "/c9/b/{f_string=a/b/c/**}:verb", "", ""),
				rule("GET", "/c9/int/{f_int32}", "", ""), rule("GET", "/c9/typed/{f_uint64}/{f_bool}/{f_enum}", "", ""),
				rule("*", "/c9/any/{f_string=*}/**", "", ""),
				// variables whose pattern continues after a wildcard, next to a shorter sibling
				rule("GET", "/c9/p/{f_string=sh/*/bk/*}", "", ""), rule("GET", "/c9/p/{f_string=sh/*}", "", ""),
				rule("GET", "/c9/q/{f_string=*/mid/**}:verb", "", ""), rule("POST", "/c9/r/{f_string=*/*/*}", "", ""))},
			dyn.MethodSpec{Name: "U2", In: ".un.All", Out: ".un.All", Rule: rule("GET", "/c9/nest/{nest.leaf.label_text}/x/{nest.big_num}", "", "",
				rule("GET", "/c9/bytes/{f_bytes}", "", ""), rule("GET", "/c9/wk/{w_int32}/{dur}", "", ""),
				rule("POST", "/c9/body", "*", ""), rule("PATCH", "/c9/bodyfield", "nest", ""), rule("POST", "/c9/resp", "*", "nest"))},
			dyn.MethodSpec{Name: "Bidi", In: ".un.All", Out: ".un.All", ClientStream: true, ServerStream: true, Rule: rule("POST", "/c9/stream", "*", "",
				rule("websocket", "/c9/ws", "*", ""), rule("WEBSOCKET", "/c9/wsnobody", "", ""))},
			dyn.MethodSpec{Name: "ClientS", In: ".un.All", Out: ".un.All", ClientStream: true, Rule: rule("POST", "/c9/client", "*", "")},
			dyn.MethodSpec{Name: "ServerS", In: ".un.All", Out: ".un.All", ServerStream: true, Rule: rule("GET", "/c9/server/{f_string}", "", "")},
			dyn.MethodSpec{Name: "Upload", In: ".un.UploadReq", Out: ".un.All", ClientStream: true, Rule: rule("POST", "/c9/upload/{name}", "file", "")},
			dyn.MethodSpec{Name: "Download", In: ".un.All", Out: ".google.api.HttpBody", ServerStream: true, Rule: rule("GET", "/c9/download", "", "")},
			dyn.MethodSpec{Name: "Raw", In: ".google.api.HttpBody", Out: ".google.api.HttpBody", Rule: rule("POST", "/c9/raw", "*", "")},
		))
	})
	return world
}

var (
	filesOnce sync.Once
	allFiles  *protoregistry.Files
)

// filesWithHealth is the private registry plus grpc.health.v1.
func filesWithHealth(w *dyn.World) *protoregistry.Files {
	filesOnce.Do(func() {
		allFiles = &protoregistry.Files{}
		w.Files.RangeFiles(func(fd protoreflect.FileDescriptor) bool {
			if err := allFiles.RegisterFile(fd); err != nil {
				panic(err)
			}
			return true
		})
		if err := allFiles.RegisterFile(healthpb.File_grpc_health_v1_health_proto); err != nil {
			panic(err)
		}
	})
	return allFiles
}

type nopStats struct{}

func (nopStats) TagRPC(ctx context.Context, _ *stats.RPCTagInfo) context.Context   { return ctx }
func (nopStats) HandleRPC(context.Context, stats.RPCStats)                         {}
func (nopStats) TagConn(ctx context.Context, _ *stats.ConnTagInfo) context.Context { return ctx }
func (nopStats) HandleConn(context.Context, stats.ConnStats)                       {}

type hstate struct {
	mu   sync.Mutex
	recv int
}

// plainCodec is a message codec without stream framing (larking.Codec only).
type plainCodec struct{}

func (plainCodec) Marshal(v any) ([]byte, error) { return proto.Marshal(v.(proto.Message)) }
func (plainCodec) MarshalAppend(b []byte, v any) ([]byte, error) {
	return proto.MarshalOptions{}.MarshalAppend(b, v.(proto.Message))
}
func (plainCodec) Unmarshal(b []byte, v any) error { return proto.Unmarshal(b, v.(proto.Message)) }
func (plainCodec) Name() string                    { return "plain" }

func newMux(c Case, hs *hstate) *larking.Mux {
	w := theWorld()
	cfg := &serviceconfig.Service{}
	health.AddHealthz(cfg)
	opts := []larking.MuxOption{larking.FilesOption(filesWithHealth(w)), larking.ServiceConfigOption(cfg)}
	if c.Config&1 != 0 {
		opts = append(opts,
			larking.UnaryServerInterceptorOption(func(ctx context.Context, req any, info *grpc.UnaryServerInfo, h grpc.UnaryHandler) (any, error) {
				return h(ctx, req)
			}),
			larking.StreamServerInterceptorOption(func(srv any, ss grpc.ServerStream, info *grpc.StreamServerInfo, h grpc.StreamHandler) error {
				return h(srv, ss)
			}))
	}
	if c.Config&2 != 0 {
		opts = append(opts, larking.StatsOption(nopStats{}))
	}
	if c.Config&4 != 0 {
		opts = append(opts, larking.MaxReceiveMessageSizeOption(64), larking.MaxSendMessageSizeOption(96))
	}
	if c.Config&8 != 0 {
		// a user-supplied codec that implements Codec but not StreamCodec
		opts = append(opts, larking.CodecOption("application/x-plain", plainCodec{}))
	}
	mux, err := larking.NewMux(opts...)
	if err != nil {
		panic(err)
	}
	herr := func() error {
		if c.HCode == 0 {
			return nil
		}
		return status.Error(codes.Code(c.HCode), []string{"scripted % failure é", "scripted \xff\xfe failure \xc3", "", strings.Repeat("scripted failure ", 300)}[c.HMsg%4])
	}
	meta := func(ctx context.Context) {
		if c.HMeta {
			grpc.SetHeader(ctx, metadata.Pairs("x-h", "1", "x-b-bin", "\x00\xff", "content-type", "text/evil", "grpc-status", "0"))
			grpc.SetTrailer(ctx, metadata.Pairs("x-t", "2", "grpc-message", "forged"))
		}
	}
	unary := func(ctx context.Context, fm string, req *dynamicpb.Message) (proto.Message, error) {
		hs.mu.Lock()
		hs.recv++
		hs.mu.Unlock()
		meta(ctx)
		if c.HWait {
			select {
			case <-ctx.Done():
			case <-time.After(60 * time.Millisecond):
			}
		}
		if err := herr(); err != nil {
			return nil, err
		}
		if strings.HasSuffix(fm, "/Raw") {
			return &httpbody.HttpBody{ContentType: "application/x-c9", Data: []byte("raw")}, nil
		}
		return req, nil
	}
	stream := func(full string, in, out protoreflect.MessageDescriptor, ss grpc.ServerStream) error {
		meta(ss.Context())
		single := strings.HasSuffix(full, "/ServerS") || strings.HasSuffix(full, "/Download")
		for i := 0; ; i++ {
			m := dynamicpb.NewMessage(in)
			if err := ss.RecvMsg(m); err != nil {
				if err == io.EOF {
					break
				}
				return err
			}
			hs.mu.Lock()
			hs.recv++
			n := hs.recv
			hs.mu.Unlock()
			if single || n > len(c.Body)+4 {
				break // the oracle below reports runaway streams
			}
		}
		if c.HWait {
			select {
			case <-ss.Context().Done():
			case <-time.After(60 * time.Millisecond):
			}
		}
		for i := 0; i < c.HSend; i++ {
			var m proto.Message = dynamicpb.NewMessage(out)
			if out.FullName() == "google.api.HttpBody" {
				m = &httpbody.HttpBody{ContentType: "application/x-c9", Data: []byte("part")}
			}
			if err := ss.SendMsg(m); err != nil {
				return err
			}
		}
		if strings.HasSuffix(full, "/ClientS") || strings.HasSuffix(full, "/Upload") {
			if err := herr(); err != nil {
				return err
			}
			return ss.SendMsg(dynamicpb.NewMessage(out))
		}
		return herr()
	}
	if err := mux.VerifRegisterService(w.ServiceDesc("un.C9", unary, stream), nil); err != nil {
		panic(err)
	}
	hsrv := health.NewServer()
	healthpb.RegisterHealthServer(mux, hsrv)
	return mux
}

// hijackWriter is a ResponseWriter whose Hijack hands out one end of a pipe;
// the other end is fed with client bytes and drained.
type hijackWriter struct {
	*httptest.ResponseRecorder
	client   []byte
	hijacked bool
	done     chan struct{}
	outMu    sync.Mutex
	out      bytes.Buffer // what the server wrote after the upgrade (bounded)
}

type capWriter struct{ h *hijackWriter }

func (c capWriter) Write(p []byte) (int, error) {
	c.h.outMu.Lock()
	if c.h.out.Len() < 1<<20 {
		c.h.out.Write(p)
	}
	c.h.outMu.Unlock()
	return len(p), nil
}

// checkWSOutput validates the frames the server sent on a hijacked connection:
// parsable headers, control frames of at most 125 bytes, and close frames whose
// code and reason satisfy RFC 6455 (the reason is valid UTF-8).
func checkWSOutput(b []byte) string {
	i := bytes.Index(b, []byte("\r\n\r\n"))
	if i < 0 {
		return "" // no complete handshake response: nothing to say about frames
	}
	rd := bytes.NewReader(b[i+4:])
	for rd.Len() > 0 {
		f, err := ws.ReadFrame(rd)
		if err != nil {
			return "" // the connection ended inside a frame (deadline / close): not a framing statement
		}
		if f.Header.OpCode.IsControl() && len(f.Payload) > 125 {
			return fmt.Sprintf("control frame %#x with a %d-byte payload", byte(f.Header.OpCode), len(f.Payload))
		}
		switch f.Header.OpCode {
		case ws.OpClose:
			if len(f.Payload) == 1 {
				return "close frame with a 1-byte payload"
			}
			if len(f.Payload) >= 2 {
				code, reason := ws.ParseCloseFrameData(f.Payload)
				if err := ws.CheckCloseFrameData(code, reason); err != nil {
					return fmt.Sprintf("close frame %d %q: %v", code, reason, err)
				}
			}
		case ws.OpText:
			if f.Header.Fin && !utf8.Valid(f.Payload) {
				return fmt.Sprintf("text frame that is not valid UTF-8: %q", f.Payload)
			}
		}
	}
	return ""
}

func (h *hijackWriter) Hijack() (net.Conn, *bufio.ReadWriter, error) {
	srv, cli := net.Pipe()
	h.hijacked = true
	h.done = make(chan struct{})
	deadline := time.Now().Add(3 * time.Second)
	srv.SetDeadline(deadline)
	cli.SetDeadline(deadline)
	go func() { io.Copy(capWriter{h}, cli) }()
	go func() {
		defer close(h.done)
		cli.Write(h.client)
		// half-close is not available on a pipe: give the server a moment, then close
		time.Sleep(5 * time.Millisecond)
		cli.Close()
	}()
	return srv, bufio.NewReadWriter(bufio.NewReader(srv), bufio.NewWriter(srv)), nil
}

type outcome struct {
	status   int
	hijacked bool
	reads    int
	recv     int
	stage    string
}

var errInjected = fmt.Errorf("injected read error")

// Check serves the request and applies the oracle.
// Check serves the request; a request that does not return is served a second
// time on a fresh mux before it is called wedged (the clause "never loops without
// consuming input" can only be observed through a clock: 10 s, twice, for a
// request that normally takes well under a millisecond). A single slow run is
// inconclusive (exit 2), never a verdict.
func Check(c Case) ([]evid.Violation, outcome) {
	vs, o, wedged := checkOnce(c)
	if !wedged {
		return vs, o
	}
	if _, _, again := checkOnce(c); !again {
		fmt.Fprintf(os.Stderr, "WATCHDOG: request did not return within 10s once, but did on a second run: %+v\n", c)
		os.Exit(2)
	}
	o.stage = "wedged"
	return []evid.Violation{evid.V("wedged", "wedged", "the request did not return within 10 s (twice, on fresh muxes): the serving goroutine loops or blocks without consuming input")}, o
}

func checkOnce(c Case) ([]evid.Violation, outcome, bool) {
	hs := &hstate{}
	mux := newMux(c, hs)
	hdr := http.Header{}
	for _, kv := range c.Headers {
		hdr.Add(kv[0], kv[1])
	}
	rd := &drive.ScriptReader{Data: c.Body, Chunks: append([]int{}, c.Chunks...)}
	if c.ErrRead {
		rd.Err = errInjected
	}
	var req *http.Request
	cl := int64(len(c.Body))
	if len(c.Chunks) > 0 {
		cl = -1
	}
	switch c.Entry {
	case "grpc":
		ct := hdr.Get("Content-Type")
		if !strings.HasPrefix(ct, "application/grpc") {
			ct = "application/grpc"
		}
		req = drive.GRPCRequest(c.Path, hdr, rd, ct)
		req.Method = c.Method
	case "grpcweb", "grpcwebtext":
		if !strings.HasPrefix(hdr.Get("Content-Type"), "application/grpc-web") {
			if c.Entry == "grpcweb" {
				hdr.Set("Content-Type", "application/grpc-web+proto")
			} else {
				hdr.Set("Content-Type", "application/grpc-web-text")
			}
		}
		req = drive.Request(c.Method, c.Path, c.Query, hdr, rd, -1)
	case "ws":
		hdr.Set("Upgrade", "websocket")
		hdr.Set("Connection", "Upgrade")
		hdr.Set("Sec-WebSocket-Version", "13")
		hdr.Set("Sec-WebSocket-Key", "dGhlIHNhbXBsZSBub25jZQ==")
		req = drive.Request("GET", c.Path, c.Query, hdr, nil, 0)
	default:
		if len(c.Body) == 0 && len(c.Chunks) == 0 {
			req = drive.Request(c.Method, c.Path, c.Query, hdr, nil, 0)
		} else {
			req = drive.Request(c.Method, c.Path, c.Query, hdr, rd, cl)
		}
	}
	// A real server cancels the request context when the client goes away;
	// handlers that legitimately wait for that (health Watch) need it here too.
	ctx, cancel := context.WithTimeout(context.Background(), 150*time.Millisecond)
	defer cancel()
	req = req.WithContext(ctx)
	var o outcome
	rec := httptest.NewRecorder()
	hw := &hijackWriter{ResponseRecorder: rec, client: c.Body}
	var pnc any
	var stack string
	finished := make(chan struct{})
	go func() {
		defer close(finished)
		defer func() {
			if p := recover(); p != nil {
				pnc, stack = p, drive.StackNow()
			}
		}()
		if c.Entry == "ws" {
			mux.ServeHTTP(hw, req)
		} else {
			mux.ServeHTTP(rec, req)
		}
	}()
	select {
	case <-finished:
	case <-time.After(10 * time.Second):
		return nil, outcome{}, true
	}
	o.status, o.hijacked, o.reads, o.recv = rec.Code, hw.hijacked, rd.Reads, hs.recv
	switch {
	case hs.recv > 0:
		o.stage = "handler"
	case rec.Code == 404 || rec.Code == 400 && strings.Contains(rec.Body.String(), "method not allowed"):
		o.stage = "matcher"
	case rd.Reads > 0:
		o.stage = "parser"
	default:
		o.stage = "entry"
	}
	if pnc != nil {
		return []evid.Violation{evid.V("panic", "panic@"+drive.TopFrame(stack), "panic: %v\n%s", pnc, firstLines(stack, 14))}, o, false
	}
	if !o.hijacked && (o.status < 100 || o.status > 599) {
		return []evid.Violation{evid.V("malformed-response", "status-out-of-range", "status %d", o.status)}, o, false
	}
	if o.hijacked {
		select { // let the drain goroutine see the last bytes
		case <-hw.done:
		case <-time.After(time.Second):
		}
		time.Sleep(time.Millisecond)
		hw.outMu.Lock()
		out := append([]byte{}, hw.out.Bytes()...)
		hw.outMu.Unlock()
		if msg := checkWSOutput(out); msg != "" {
			return []evid.Violation{evid.V("malformed-response", "ws-malformed-frame", "the server sent a malformed WebSocket frame: %s", msg)}, o, false
		}
	}
	if o.reads > 16+4*len(c.Body) {
		return []evid.Violation{evid.V("spin", "spin-reads", "%d Read calls for a %d-byte body", o.reads, len(c.Body))}, o, false
	}
	// a compressed body may legitimately expand (deflate: at most ~1032:1) before it is found corrupt
	maxMsgs := len(c.Body) + 1
	for _, kv := range c.Headers {
		if (strings.EqualFold(kv[0], "Content-Encoding") || strings.EqualFold(kv[0], "Grpc-Encoding")) && strings.Contains(strings.ToLower(kv[1]), "gzip") {
			maxMsgs = 1100*len(c.Body) + 16
		}
	}
	if o.recv > maxMsgs {
		return []evid.Violation{evid.V("spin", "spin-messages", "handler received %d messages from a %d-byte body: the stream never ends", o.recv, len(c.Body))}, o, false
	}
	return nil, o, false
}

func firstLines(s string, n int) string {
	lines := strings.Split(s, "\n")
	var keep []string
	for _, l := range lines {
		if strings.Contains(l, "larking") || strings.Contains(l, "panic") {
			keep = append(keep, l)
		}
		if len(keep) >= n {
			break
		}
	}
	return strings.Join(keep, "\n")
}

// ---------------------------------------------------------------------------
// generators

var hostilePaths = []string{"", "/", "//", "/:", ":", "/c9/:", "/c9/a:b:c", "/c9/a/a/x:verb", "/c9/a/a:verb", "/c9/b/a/b/c/x:verb", "/c9/b/a/b/c:verb", "/c9/b/a/b:verb", "/c9/b/a:verb",
	"/c9/a/a/:verb", "/c9/x:", "/c9/int/", "/c9/int/99999999999", "/c9/int/1e3", "/c9/typed/1/true/RED", "/c9/typed/-1/TRUE/9", "/c9/bytes/!!!", "/c9/wk/1/1s", "/c9/wk/x/y",
	"/c9/nest/a/x/1", "/c9/any/x/y/z", "/c9/any/x", "/v1/healthz", "/un.C9/U1", "/un.C9/Bidi", "/un.C9/Nope", "/grpc.health.v1.Health/Check", "/c9/\x00", "/c9/é/ü", "/c9/%zz", "/c9/a b",
	"/c9/p/sh/x", "/c9/p/sh/x/bk", "/c9/p/sh", "/c9/q/x", "/c9/q/x/mid", "/c9/q/x/mid:verb", "/c9/r/a/b", "/c9/r/a", "/c9/" + strings.Repeat("a/", 40), "/c9/" + strings.Repeat("x:", 40), strings.Repeat("/", 70), "/c9/{f_string}", "/c9/*", "/c9/**", "c9/x", "/c9/x/", "/c9/x//y"}

var hostileQueries = []string{"", "f_int32=1", "f_int32=x", "nope=1", "r_int32=1&r_int32=2", "r_leaf.count=1", "r_leaf=1", "m_si.key=1", "m_si=1", "m_sl.a.count=1", "nest.leaf.count.x=1", "f_int32.x=1",
	"o_leaf.count=1&o_string=x", "nest=1", "nest.leaf=1", "ts=x", "ts=2020-01-01T00:00:00Z", "mask=a,b", "w_string=%22", "w_string=\"", "w_bytes=%", "f_bytes=!!", "f_enum=PURPLE", "http_body.data=QQ",
	"http_body.content_type=x", "=1", "&&&", "a=b=c", "nest..leaf=1", ".=1", "f_string=" + strings.Repeat("x", 300), "%zz=1", "r_string=a&r_string=b&r_string=", "body_leaf.color=7", "f_double=1e999", "f_float=NaN",
	// values that are not UTF-8: whatever quotes them in an error has to survive every response codec
	"f_enum=%ff", "f_int32=%80", "ts=%ff%fe", "f_string=%ff%fe", "mask=%ff", "f_bool=%c3", "w_string=%ff", "%ff=1", "nest.%ff=1"}

var headerPool = [][2]string{{"Grpc-Timeout", "20m"}, {"Grpc-Timeout", "5m"}, {"Grpc-Timeout", "1n"}, {"Grpc-Timeout", "0S"}, {"Grpc-Timeout", "99999999H"}, {"Grpc-Timeout", "5s"}, {"Content-Type", "application/x-plain"}, {"Accept", "application/x-plain"}, {"Content-Type", "application/json"}, {"Content-Type", "application/protobuf"}, {"Content-Type", "application/octet-stream"}, {"Content-Type", "google.api.HttpBody"},
	{"Content-Type", "text/plain"}, {"Content-Type", "application/grpc+json"}, {"Content-Type", "application/grpc+nope"}, {"Content-Type", "application/grpc-web-text+proto"}, {"Content-Type", ""},
	{"Accept", "google.api.HttpBody"}, {"Accept", "*/*"}, {"Accept", "application/protobuf"}, {"Accept", "application/octet-stream"}, {"Accept", "application/protobuf"}, {"Accept", "application/protobuf;q=0.5, */*;q=0"}, {"Accept", ",,,"}, {"Accept-Encoding", "gzip"}, {"Accept-Encoding", "*"},
	{"Content-Encoding", "gzip"}, {"Content-Encoding", "br"}, {"Content-Encoding", "identity"}, {"Grpc-Encoding", "gzip"}, {"Grpc-Encoding", "nope"}, {"Grpc-Encoding", "identity"},
	{"Grpc-Timeout", "1S"}, {"Grpc-Timeout", "0n"}, {"Grpc-Timeout", "xx"}, {"Grpc-Timeout", "99999999H"}, {"Twirp-Version", "7"}, {"Upgrade", "websocket"}, {"Upgrade", "h2c"},
	{"X-Tok-Bin", "AA=="}, {"X-Tok-Bin", "!!"}, {"X-Plain", "v"}, {"Te", "trailers"}, {"Connection", "close"}}

func grpcFrames(t *rapid.T) []byte {
	var buf bytes.Buffer
	n := rapid.IntRange(0, 3).Draw(t, "nframes")
	for i := 0; i < n; i++ {
		var payload []byte
		switch rapid.IntRange(0, 4).Draw(t, "pl") {
		case 0:
		case 1:
			payload = []byte{0x18, 0x01}
		case 2:
			payload = []byte{0x72, 0x02, 'h', 'i'}
		case 3:
			payload = rapid.SliceOfN(rapid.Byte(), 0, 20).Draw(t, "rawpl")
		case 4:
			payload = drive.Gzip([]byte{0x18, 0x01})
		}
		flag := rapid.SampledFrom([]byte{0, 0, 1, 2, 0x80, 0xff}).Draw(t, "flag")
		hdr := []byte{flag, 0, 0, 0, 0}
		l := uint32(len(payload))
		switch rapid.IntRange(0, 7).Draw(t, "lenmut") {
		case 0:
			l++
		case 1:
			l = 0xffffffff
		case 2:
			l = 1 << 31
		case 3:
			if l > 0 {
				l--
			}
		}
		binary.BigEndian.PutUint32(hdr[1:], l)
		buf.Write(hdr)
		buf.Write(payload)
	}
	if rapid.IntRange(0, 5).Draw(t, "tail") == 0 {
		buf.Write(rapid.SliceOfN(rapid.Byte(), 1, 4).Draw(t, "tailb"))
	}
	return buf.Bytes()
}

func wsFrames(t *rapid.T) []byte {
	var buf bytes.Buffer
	n := rapid.IntRange(0, 3).Draw(t, "nws")
	for i := 0; i < n; i++ {
		payload := rapid.SampledFrom([][]byte{[]byte(`{}`), []byte(`{"fInt32":1}`), []byte(`{bad`), nil, []byte(`{"nope":1}`), bytes.Repeat([]byte("x"), 200)}).Draw(t, "wspl")
		if rapid.IntRange(0, 4).Draw(t, "wslongname") == 0 {
			// an error text (it quotes the unknown field) longer than a close frame can carry, with
			// multi-byte runes at every alignment relative to the cut
			unit := rapid.SampledFrom([]string{"é", "日", "😀", "x"}).Draw(t, "wsunit")
			payload = []byte(`{"` + strings.Repeat("a", rapid.IntRange(0, 4).Draw(t, "wspad")) + strings.Repeat(unit, 160/len(unit)) + `":1}`)
		}
		op := rapid.SampledFrom([]byte{0x81, 0x81, 0x82, 0x88, 0x89, 0x8a, 0x01, 0x80, 0x8f}).Draw(t, "wsop")
		mask := []byte{1, 2, 3, 4}
		b := []byte{op}
		masked := rapid.IntRange(0, 5).Draw(t, "masked") != 0
		mb := byte(0x80)
		if !masked {
			mb = 0
		}
		switch {
		case len(payload) < 126:
			b = append(b, mb|byte(len(payload)))
		default:
			b = append(b, mb|126, byte(len(payload)>>8), byte(len(payload)))
		}
		if rapid.IntRange(0, 9).Draw(t, "wslenmut") == 0 {
			b[1] = mb | 127
			b = append(b, 0xff, 0xff, 0xff, 0xff, 0xff, 0xff, 0xff, 0xff)
		}
		if masked {
			b = append(b, mask...)
			p := append([]byte{}, payload...)
			for j := range p {
				p[j] ^= mask[j%4]
			}
			payload = p
		}
		buf.Write(b)
		buf.Write(payload)
	}
	if rapid.Bool().Draw(t, "wsclose") {
		buf.Write([]byte{0x88, 0x82, 1, 2, 3, 4, 0x03 ^ 1, 0xe8 ^ 2})
	}
	return buf.Bytes()
}

// listElems are list elements for Accept-like headers: well formed, and every
// kind of separator / quoted / comment / empty element a hostile client may put
// where a token is expected.
var listElems = []string{"application/json", "application/protobuf", "*/*", "text/*", "gzip", "identity", "br", "*", "", " ", ";q=0.5", "q=1", "(comment) text/html", "\"x\"", "=", "/", ";", "a/b;q", "a/b;q=", "a/b;q=2", "a/b;q=0.5;x=\"y", "\x00", "é", "a//b", "gzip;q=0"}

func genListHeader(t *rapid.T) [2]string {
	name := rapid.SampledFrom([]string{"Accept", "Accept", "Accept-Encoding", "Grpc-Accept-Encoding", "Content-Type", "Content-Encoding"}).Draw(t, "lhName")
	n := rapid.IntRange(1, 4).Draw(t, "lhN")
	var parts []string
	for i := 0; i < n; i++ {
		parts = append(parts, rapid.SampledFrom(listElems).Draw(t, "lhElem"))
	}
	return [2]string{name, strings.Join(parts, rapid.SampledFrom([]string{", ", ",", " , ", ";"}).Draw(t, "lhSep"))}
}

// protoOfSize returns the encoding of un.All{f_string: "aaa..."} with exactly n bytes (n = 1 is a lone tag byte: malformed, which is fine here).
func protoOfSize(n int) []byte {
	switch {
	case n <= 0:
		return nil
	case n == 1:
		return []byte{0x72}
	}
	for l := n - 2; l >= 0; l-- {
		b := append([]byte{0x72}, protowire.AppendVarint(nil, uint64(l))...)
		if len(b)+l == n {
			return append(b, bytes.Repeat([]byte("a"), l)...)
		}
	}
	return bytes.Repeat([]byte{0}, n)
}

func genPath(t *rapid.T) string {
	switch rapid.IntRange(0, 9).Draw(t, "pathKind") {
	case 0, 1, 2:
		return rapid.SampledFrom(hostilePaths).Draw(t, "hostile")
	case 3:
		return string(rapid.SliceOfN(rapid.Byte(), 0, 30).Draw(t, "rawpath"))
	default:
		tm := rapid.SampledFrom(templates).Draw(t, "tmpl")
		var sb strings.Builder
		for i := 0; i < len(tm); i++ {
			if tm[i] == '{' {
				j := strings.IndexByte(tm[i:], '}')
				inner := tm[i+1 : i+j]
				pat := "*"
				if k := strings.IndexByte(inner, '='); k >= 0 {
					pat = inner[k+1:]
				}
				fill := rapid.SampledFrom([]string{"x", "1", "true", "RED", "1s", "QUJD", "a/b", "a", "-7", "é", "x:y", ""}).Draw(t, "fill")
				sb.WriteString(strings.NewReplacer("**", fill+"/y/z", "*", fill).Replace(pat))
				i += j
				continue
			}
			sb.WriteByte(tm[i])
		}
		p := sb.String()
		p = strings.ReplaceAll(p, "**", "p/q")
		switch rapid.IntRange(0, 9).Draw(t, "pmut") {
		case 8, 9: // a prefix of the instantiation, cut at a segment boundary
			if segs := strings.Split(p, "/"); len(segs) > 2 {
				p = strings.Join(segs[:rapid.IntRange(2, len(segs)-1).Draw(t, "cutseg")], "/")
			}
		case 0:
			p += ":verb"
		case 1:
			p += "/"
		case 2:
			if i := strings.LastIndex(p, "/"); i > 0 {
				p = p[:i] + ":" + p[i+1:]
			}
		case 3:
			p = strings.Replace(p, "/", "//", 1)
		}
		return p
	}
}

// validRoutes are (method, path, body) triples that reach a handler.
var validRoutes = [][3]string{
	{"GET", "/c9/x/y/z", ""}, {"GET", "/c9/a/a/p/q:verb", ""}, {"GET", "/c9/b/a/b/c/d:verb", ""}, {"GET", "/c9/int/42", ""}, {"GET", "/c9/typed/7/true/RED", ""},
	{"DELETE", "/c9/any/x/y", ""}, {"GET", "/c9/nest/lbl/x/99", ""}, {"GET", "/c9/bytes/QUJD", ""}, {"GET", "/c9/wk/5/1.5s", ""}, {"POST", "/c9/body", `{"fInt32":1,"rLeaf":[{"count":2}]}`},
	{"PATCH", "/c9/bodyfield", `{"subTitle":"t"}`}, {"POST", "/c9/resp", `{"nest":{"bigNum":"5"}}`}, {"POST", "/c9/stream", `{"fInt32":1}{"fInt32":2}`}, {"POST", "/c9/client", `{}{}`},
	{"GET", "/c9/server/s1", ""}, {"POST", "/c9/upload/n1", "raw upload bytes"}, {"GET", "/c9/download", ""}, {"POST", "/c9/raw", "rawbody"}, {"GET", "/v1/healthz", ""},
	{"POST", "/un.C9/U1", `{"fString":"implicit"}`}, {"POST", "/un.C9/Bidi", `{}`},
}

// genValidish starts from a request that reaches a handler and perturbs it.
func genValidish(t *rapid.T) Case {
	var c Case
	c.Config = rapid.IntRange(0, 15).Draw(t, "config")
	c.Entry = rapid.SampledFrom([]string{"http", "http", "grpc", "grpcweb", "grpcwebtext", "ws"}).Draw(t, "ventry")
	switch c.Entry {
	case "http":
		r := rapid.SampledFrom(validRoutes).Draw(t, "route")
		c.Method, c.Path, c.Body = r[0], r[1], []byte(r[2])
		if len(c.Body) > 0 {
			c.Headers = append(c.Headers, [2]string{"Content-Type", "application/json"})
			if (c.Path == "/c9/stream" || c.Path == "/c9/client") && rapid.IntRange(0, 2).Draw(t, "vproto") == 0 {
				// a length-delimited protobuf stream with message sizes around the pooled buffer capacities
				var sb bytes.Buffer
				for i, n := 0, rapid.IntRange(1, 3).Draw(t, "vpn"); i < n; i++ {
					sz := rapid.SampledFrom([]int{0, 1, 2, 10, 62, 63, 64, 65, 66, 126, 127, 128, 129, 130, 200, 1000, 1023, 1024, 1025}).Draw(t, "vpsz")
					larking.CodecProto{}.WriteNext(&sb, protoOfSize(sz))
				}
				c.Body = sb.Bytes()
				c.Headers[len(c.Headers)-1] = [2]string{"Content-Type", "application/protobuf"}
			}
			if rapid.IntRange(0, 3).Draw(t, "vhgz") == 0 {
				// a well-formed compressed body on every kind of binding (unary, streaming, HttpBody)
				c.Body = drive.Gzip(c.Body)
				c.Headers = append(c.Headers, [2]string{"Content-Encoding", "gzip"})
			}
		}
	case "ws":
		c.Method = "GET"
		c.Path = rapid.SampledFrom([]string{"/c9/ws", "/c9/ws", "/c9/wsnobody", "/v1/healthz"}).Draw(t, "wspath")
		c.Body = wsFrames(t)
	default:
		c.Method = "POST"
		c.Path = rapid.SampledFrom([]string{"/un.C9/U1", "/un.C9/U2", "/un.C9/Bidi", "/un.C9/ClientS", "/un.C9/ServerS", "/un.C9/Upload", "/un.C9/Download", "/un.C9/Raw", "/grpc.health.v1.Health/Check"}).Draw(t, "vgpath")
		var buf bytes.Buffer
		anyGz := false
		n := rapid.IntRange(1, 3).Draw(t, "vn")
		for i := 0; i < n; i++ {
			pl := rapid.SampledFrom([][]byte{nil, {0x18, 0x01}, {0x72, 0x02, 'h', 'i'}, {0x18}}).Draw(t, "vpl")
			gz := rapid.IntRange(0, 3).Draw(t, "vgz") == 0
			buf.Write(drive.GRPCFrame(pl, gz))
			anyGz = anyGz || gz
		}
		// the declared encoding is drawn apart from the frames' compressed flags, so that every pairing
		// (flag set under identity / an unknown name / no header at all, gzip declared but unused) occurs
		switch enc := rapid.SampledFrom([]string{"match", "match", "match", "gzip", "identity", "nope", ""}).Draw(t, "venc"); {
		case enc == "match" && anyGz:
			c.Headers = append(c.Headers, [2]string{"Grpc-Encoding", "gzip"})
		case enc != "match" && enc != "":
			c.Headers = append(c.Headers, [2]string{"Grpc-Encoding", enc})
		}
		c.Body = buf.Bytes()
		if c.Entry == "grpcwebtext" {
			c.Body = []byte(base64.StdEncoding.EncodeToString(c.Body))
		}
	}
	// perturbations
	for i, n := 0, rapid.IntRange(0, 2).Draw(t, "nperturb"); i < n; i++ {
		switch rapid.IntRange(0, 5).Draw(t, "perturb") {
		case 0:
			if rapid.IntRange(0, 2).Draw(t, "plist") == 0 {
				c.Headers = append(c.Headers, genListHeader(t))
			} else {
				c.Headers = append(c.Headers, rapid.SampledFrom(headerPool).Draw(t, "phdr"))
			}
		case 1:
			if c.Entry == "http" || c.Entry == "ws" {
				c.Query = rapid.SampledFrom(hostileQueries).Draw(t, "pquery")
			}
		case 2:
			if len(c.Body) > 0 {
				j := rapid.IntRange(0, len(c.Body)-1).Draw(t, "flipAt")
				c.Body = append([]byte{}, c.Body...)
				c.Body[j] ^= byte(rapid.IntRange(1, 255).Draw(t, "flip"))
			}
		case 3:
			if len(c.Body) > 1 {
				c.Body = c.Body[:rapid.IntRange(0, len(c.Body)-1).Draw(t, "cut")]
			}
		case 4:
			c.ErrRead = true
		case 5:
			c.Path += rapid.SampledFrom([]string{"/", ":verb", "/x", ":"}).Draw(t, "psuffix")
		}
	}
	if len(c.Body) > 0 && rapid.Bool().Draw(t, "vchunked") {
		for i, n := 0, rapid.IntRange(1, 6).Draw(t, "vnchunks"); i < n; i++ {
			c.Chunks = append(c.Chunks, rapid.IntRange(1, 1+len(c.Body)/2).Draw(t, "vchunk"))
		}
	}
	c.HCode = rapid.SampledFrom([]uint32{0, 0, 0, 3, 5, 13, 16, 17, 99, 1<<31 - 1}).Draw(t, "hcode")
	c.HMsg = rapid.SampledFrom([]int{0, 0, 1, 1, 2, 3}).Draw(t, "hmsg")
	c.HSend = rapid.IntRange(0, 3).Draw(t, "hsend")
	c.HWait = rapid.IntRange(0, 7).Draw(t, "hwait") == 0
	c.HMeta = rapid.Bool().Draw(t, "hmeta")
	return c
}

func genCase(t *rapid.T) Case {
	if rapid.IntRange(0, 9).Draw(t, "validish") < 6 {
		return genValidish(t)
	}
	var c Case
	c.Config = rapid.IntRange(0, 15).Draw(t, "config")
	c.Entry = rapid.SampledFrom([]string{"http", "http", "http", "grpc", "grpcweb", "grpcwebtext", "ws"}).Draw(t, "entry")
	c.Method = rapid.SampledFrom([]string{"GET", "POST", "POST", "PATCH", "PUT", "DELETE", "HEAD", "OPTIONS", "websocket", "WEBSOCKET", "", "get", "*", "CONNECT"}).Draw(t, "method")
	c.Path = genPath(t)
	if c.Entry == "grpc" || strings.HasPrefix(c.Entry, "grpcweb") {
		if rapid.IntRange(0, 3).Draw(t, "grpcpath") != 0 {
			c.Path = rapid.SampledFrom([]string{"/un.C9/U1", "/un.C9/U2", "/un.C9/Bidi", "/un.C9/ClientS", "/un.C9/ServerS", "/un.C9/Upload", "/un.C9/Download", "/un.C9/Raw", "/grpc.health.v1.Health/Check", "/grpc.health.v1.Health/Watch", "/un.C9/Nope"}).Draw(t, "gpath")
		}
		if rapid.IntRange(0, 9).Draw(t, "post") != 0 {
			c.Method = "POST"
		}
	}
	if rapid.Bool().Draw(t, "hasQuery") {
		c.Query = rapid.SampledFrom(hostileQueries).Draw(t, "query")
		if rapid.IntRange(0, 9).Draw(t, "rawq") == 0 {
			c.Query = string(rapid.SliceOfN(rapid.Byte(), 0, 20).Draw(t, "rawquery"))
		}
	}
	nh := rapid.IntRange(0, 4).Draw(t, "nh")
	for i := 0; i < nh; i++ {
		if rapid.IntRange(0, 3).Draw(t, "hlist") == 0 {
			c.Headers = append(c.Headers, genListHeader(t))
		} else {
			c.Headers = append(c.Headers, rapid.SampledFrom(headerPool).Draw(t, "hdr"))
		}
	}
	switch c.Entry {
	case "grpc", "grpcweb":
		c.Body = grpcFrames(t)
	case "grpcwebtext":
		c.Body = []byte(base64.StdEncoding.EncodeToString(grpcFrames(t)))
		if rapid.IntRange(0, 5).Draw(t, "badb64") == 0 && len(c.Body) > 2 {
			c.Body = c.Body[:len(c.Body)-1]
		}
	case "ws":
		c.Body = wsFrames(t)
	default:
		c.Body = rapid.SampledFrom([][]byte{nil, []byte(`{}`), []byte(`{"fInt32":1}`), []byte(`{"fInt32":1}{"fString":"x"}`), []byte(`{`), []byte(`}`), []byte(`{"a":"}"`), []byte(`[]`), []byte(`null`),
			{0x18, 0x01}, {0x02, 0x18, 0x01, 0x00}, {0xff, 0xff, 0xff, 0xff, 0xff, 0xff, 0xff, 0xff, 0xff, 0x01}, {0x80, 0x80, 0x80, 0x80, 0x80, 0x80, 0x80, 0x80, 0x80, 0x01, 1, 2, 3}, {0x80},
			drive.Gzip([]byte(`{"fInt32":1}`)), drive.Gzip(nil)[:10], bytes.Repeat([]byte("x"), 200), []byte("{\"nest\":{\"leaf\":{\"labelText\":\"" + strings.Repeat("y", 100) + "\"}}}")}).Draw(t, "body")
		if rapid.IntRange(0, 5).Draw(t, "rawbody") == 0 {
			c.Body = rapid.SliceOfN(rapid.Byte(), 0, 40).Draw(t, "rawb")
		}
	}
	if len(c.Body) > 0 && rapid.Bool().Draw(t, "chunked") {
		n := rapid.IntRange(1, 5).Draw(t, "nchunks")
		for i := 0; i < n; i++ {
			c.Chunks = append(c.Chunks, rapid.IntRange(1, 1+len(c.Body)/2).Draw(t, "chunk"))
		}
	}
	c.ErrRead = rapid.IntRange(0, 7).Draw(t, "errRead") == 0
	c.HCode = rapid.SampledFrom([]uint32{0, 0, 0, 3, 5, 13, 16, 17, 99, 1<<31 - 1}).Draw(t, "hcode")
	c.HMsg = rapid.SampledFrom([]int{0, 0, 1, 1, 2, 3}).Draw(t, "hmsg")
	c.HSend = rapid.IntRange(0, 3).Draw(t, "hsend")
	c.HWait = rapid.IntRange(0, 7).Draw(t, "hwait") == 0
	c.HMeta = rapid.Bool().Draw(t, "hmeta")
	return c
}

func classify(c Case, o outcome) (string, []string) {
	sc := fmt.Sprintf("%dxx", o.status/100)
	if o.hijacked {
		sc = "hijacked"
	}
	cl := []string{"entry=" + c.Entry, "stage=" + o.stage, "status=" + sc, fmt.Sprintf("config=%d", c.Config)}
	key := ""
	if o.stage != "entry" {
		key = fmt.Sprintf("%s|%s|%s|%d|%d|%d|%v|%v|%s|%s|%v", c.Entry, o.stage, sc, c.HCode, c.Config, c.HSend, c.HMeta, c.HWait, c.Path, c.Query, c.Headers) + fmt.Sprint(c.HMsg)
	}
	return key, cl
}

func TestProp(t *testing.T) {
	rapid.Check(t, func(t *rapid.T) {
		c := genCase(t)
		vs, o := Check(c)
		key, cl := classify(c, o)
		evid.Eval(key, cl...)
		evid.Sample(c.Entry+"/"+o.stage, c)
		evid.Report(t, prop, c, vs)
	})
}

// FuzzServe is the native coverage-guided target (thorough tier): the same
// generator driven by the fuzzer's bytes.
func FuzzServe(f *testing.F) {
	f.Fuzz(rapid.MakeFuzz(func(t *rapid.T) {
		c := genCase(t)
		vs, _ := Check(c)
		if len(vs) > 0 && !evid.IsKnown(prop, vs[0].Sig) {
			t.Fatalf("property C09 violated: %v\ncase: %+v", vs[0], c)
		}
	}))
}

func TestReplay(t *testing.T) {
	path := os.Getenv("VERIF_REPLAY")
	if path == "" {
		t.Skip("VERIF_REPLAY not set")
	}
	var c Case
	if err := evid.LoadReplay(path, &c); err != nil {
		t.Fatal(err)
	}
	vs, _ := Check(c)
	evid.Report(t, prop, c, vs)
}
