// C08 — message size limits hold on every protocol.
package c08

import (
	"bytes"
	"context"
	"encoding/base64"
	"fmt"
	"io"
	"math"
	"net/http"
	"net/http/httptest"
	"os"
	"strconv"
	"strings"
	"sync"
	"sync/atomic"
	"testing"
	"time"

	"github.com/gobwas/ws"
	"github.com/gobwas/ws/wsutil"
	"google.golang.org/genproto/googleapis/api/annotations"
	"google.golang.org/genproto/googleapis/api/httpbody"
	"google.golang.org/grpc"
	"google.golang.org/protobuf/encoding/protojson"
	"google.golang.org/protobuf/encoding/protowire"
	"google.golang.org/protobuf/proto"
	"google.golang.org/protobuf/reflect/protoreflect"
	"google.golang.org/protobuf/types/dynamicpb"
	"larking.io/larking"
	"pgregory.net/rapid"

	"verif/drive"
	"verif/dyn"
	"verif/evid"
	"verif/uni"
)

const prop = "C08"

func TestMain(m *testing.M) {
	code := m.Run()
	evid.Flush()
	os.Exit(code)
}

// Case: one call in one cell of the protocol matrix.
type Case struct {
	Cell      string `json:"cell"`
	L         int    `json:"l"`          // MaxReceiveMessageSize
	S         int    `json:"s"`          // MaxSendMessageSize (0 = default)
	Sizes     []int  `json:"sizes"`      // exact encoded size of each request message
	ReplySize int    `json:"reply_size"` // exact encoded size of the reply (0 = tiny)
	RawPrefix []byte `json:"raw_prefix"` // httpstream-proto only: hand-written length prefix followed by 32 bytes
	Frag      int    `json:"frag"`       // ws only: each message travels as RFC 6455 fragments of at most Frag bytes (0 = one frame)
	Granular  bool   `json:"granular"`   // protobuf cells: messages are built from 2-byte occurrences of the id field instead of one long filler, so that (nearly) every prefix of an encoding is itself a decodable message
}

var (
	worldOnce sync.Once
	world     *dyn.World
)

func theWorld() *dyn.World {
	worldOnce.Do(func() {
		post := func(p, body string) *annotations.HttpRule {
			return &annotations.HttpRule{Pattern: &annotations.HttpRule_Post{Post: p}, Body: body}
		}
		bidi := post("/c8/stream", "*")
		bidi.AdditionalBindings = []*annotations.HttpRule{{Pattern: &annotations.HttpRule_Custom{Custom: &annotations.CustomHttpPattern{Kind: "websocket", Path: "/c8/ws"}}, Body: "*"}}
		world = uni.WorldWith(dyn.Svc("C8",
			dyn.MethodSpec{Name: "Unary", In: ".un.All", Out: ".un.All", Rule: post("/c8/unary", "*")},
			dyn.MethodSpec{Name: "Stream", In: ".un.All", Out: ".un.All", ClientStream: true, ServerStream: true, Rule: bidi},
			dyn.MethodSpec{Name: "RawUnary", In: ".un.UploadReq", Out: ".un.All", Rule: post("/c8/raw/{name}", "file")},
			dyn.MethodSpec{Name: "RawStream", In: ".un.UploadReq", Out: ".un.All", ClientStream: true, Rule: post("/c8/rawstream/{name}", "file")},
		))
	})
	return world
}

// sized builds un.All{f_int32:id, f_string:"aaa…"} whose encoding in codec
// (json|proto) has exactly target bytes; ok=false if unreachable.
func sized(w *dyn.World, codec string, id, target int) ([]byte, bool) {
	md := w.MsgDesc("un.All")
	enc := func(n int, extra bool) []byte {
		m := dynamicpb.NewMessage(md)
		m.Set(md.Fields().ByName("f_int32"), protoreflect.ValueOfInt32(int32(id)))
		if n > 0 {
			m.Set(md.Fields().ByName("f_string"), protoreflect.ValueOfString(strings.Repeat("a", n)))
		}
		if extra {
			m.Set(md.Fields().ByName("f_bool"), protoreflect.ValueOfBool(true))
		}
		if codec == "json" {
			// deterministic, compact JSON written by hand (protojson output is unstable)
			s := fmt.Sprintf(`{"fInt32":%d`, id)
			if n > 0 {
				s += `,"fString":"` + strings.Repeat("a", n) + `"`
			}
			if extra {
				s += `,"fBool":true`
			}
			return []byte(s + "}")
		}
		b, _ := proto.MarshalOptions{Deterministic: true}.Marshal(m)
		return b
	}
	for _, extra := range []bool{false, true} {
		n := target
		for iter := 0; iter < 8 && n >= 0; iter++ {
			b := enc(n, extra)
			if len(b) == target {
				return b, true
			}
			n -= len(b) - target
		}
	}
	return nil, false
}

// granular is a wire encoding of un.All{f_int32:id} with exactly n >= 3 bytes: the field (number 3, varint)
// occurs over and over - legal, the last occurrence wins - so that cutting the encoding short at any
// element boundary leaves a message that still decodes (to the same id).
func granular(id, n int) []byte {
	var b []byte
	if n%2 == 1 {
		b = append(b, 0x18, 0x80|byte(id), 0x00) // the same value as a two-byte varint
	}
	for len(b) < n {
		b = append(b, 0x18, byte(id))
	}
	return b
}

type record struct {
	ids      []int
	rawSizes []int
	termErr  error
	ran      bool
	done     bool
}

func idOf(m proto.Message) int {
	r := m.ProtoReflect()
	if fd := r.Descriptor().Fields().ByName("f_int32"); fd != nil {
		return int(r.Get(fd).Int())
	}
	return 0
}

func register(c Case, rec *record, reply proto.Message) *larking.Mux {
	w := theWorld()
	opts := []larking.MuxOption{larking.FilesOption(w.Files), larking.MaxReceiveMessageSizeOption(c.L)}
	if c.S > 0 {
		opts = append(opts, larking.MaxSendMessageSizeOption(c.S))
	}
	mux, err := larking.NewMux(opts...)
	if err != nil {
		panic(err)
	}
	unary := func(ctx context.Context, fm string, req *dynamicpb.Message) (proto.Message, error) {
		rec.ran = true
		if strings.HasSuffix(fm, "/RawUnary") {
			r := req.ProtoReflect()
			file := r.Get(r.Descriptor().Fields().ByName("file")).Message()
			rec.rawSizes = append(rec.rawSizes, len(file.Get(file.Descriptor().Fields().ByName("data")).Bytes()))
		} else {
			rec.ids = append(rec.ids, idOf(req))
		}
		rec.done = true
		return reply, nil
	}
	stream := func(full string, in, out protoreflect.MessageDescriptor, ss grpc.ServerStream) error {
		rec.ran = true
		for i := 0; i < 64; i++ {
			m := dynamicpb.NewMessage(in)
			if err := ss.RecvMsg(m); err != nil {
				rec.termErr = err
				if err != io.EOF {
					return err
				}
				break
			}
			if strings.HasSuffix(full, "/RawStream") {
				r := m.ProtoReflect()
				file := r.Get(r.Descriptor().Fields().ByName("file")).Message()
				rec.rawSizes = append(rec.rawSizes, len(file.Get(file.Descriptor().Fields().ByName("data")).Bytes()))
			} else {
				rec.ids = append(rec.ids, idOf(m))
			}
			if full == "/un.C8/Stream" && c.Cell == "ws" && len(rec.ids) == len(c.Sizes) {
				break // WebSocket: the server ends the call
			}
		}
		if err := ss.SendMsg(reply); err != nil {
			return err
		}
		rec.done = true
		return nil
	}
	if err := mux.VerifRegisterService(w.ServiceDesc("un.C8", unary, stream), nil); err != nil {
		panic(err)
	}
	return mux
}

type info struct{ boundary, compressed, bigPrefix bool }

// Check applies the oracle to one case.
func Check(c Case) ([]evid.Violation, info) {
	var in info
	w := theWorld()
	rec := &record{}
	jsonCell := strings.Contains(c.Cell, "json") || c.Cell == "ws" || strings.HasPrefix(c.Cell, "httpbody")
	codec := "proto"
	if jsonCell {
		codec = "json"
	}
	sig := c.Cell + ":"
	fail := func(clause, s, f string, a ...any) ([]evid.Violation, info) {
		return []evid.Violation{evid.V(clause, sig+s, f, a...)}, in
	}
	// reply
	var reply proto.Message = dynamicpb.NewMessage(w.MsgDesc("un.All"))
	var replyBytes []byte
	if c.ReplySize > 0 {
		b, ok := sized(w, codec, 99, c.ReplySize)
		if !ok {
			return nil, in // unreachable size: skip
		}
		replyBytes = b
		m := dynamicpb.NewMessage(w.MsgDesc("un.All"))
		if codec == "json" {
			if err := protojson.Unmarshal(b, m); err != nil {
				panic(err)
			}
		} else if err := proto.Unmarshal(b, m); err != nil {
			panic(err)
		}
		reply = m
	}
	mux := register(c, rec, reply)
	// request messages
	var msgs [][]byte
	for i, sz := range c.Sizes {
		if strings.HasPrefix(c.Cell, "httpbody") {
			msgs = append(msgs, bytes.Repeat([]byte{'x'}, sz))
			continue
		}
		b, ok := sized(w, codec, i+1, sz)
		if c.Granular && codec == "proto" && sz >= 3 {
			b, ok = granular(i+1, sz), true
		}
		if !ok {
			return nil, in
		}
		msgs = append(msgs, b)
	}
	for _, sz := range c.Sizes {
		if d := sz - c.L; d >= -1 && d <= 1 {
			in.boundary = true
		}
	}
	if d := c.ReplySize - c.S; c.S > 0 && d >= -1 && d <= 1 {
		in.boundary = true
	}
	in.compressed = strings.Contains(c.Cell, "gzip")
	in.bigPrefix = c.RawPrefix != nil

	hdr := http.Header{}
	var res drive.Result
	var wsErr string
	var body bytes.Buffer
	switch c.Cell {
	case "http-json", "http-proto", "http-json-gzip", "http-proto-gzip":
		ct := "application/json"
		if codec == "proto" {
			ct = "application/protobuf"
		}
		hdr.Set("Content-Type", ct)
		b := msgs[0]
		if in.compressed {
			hdr.Set("Content-Encoding", "gzip")
			b = drive.Gzip(b)
		}
		res = drive.Serve(mux, drive.Request("POST", "/c8/unary", "", hdr, bytes.NewReader(b), int64(len(b))))
	case "httpstream-json", "httpstream-proto":
		if codec == "json" {
			hdr.Set("Content-Type", "application/json")
			for _, m := range msgs {
				body.Write(m)
			}
		} else {
			hdr.Set("Content-Type", "application/protobuf")
			for _, m := range msgs {
				larking.CodecProto{}.WriteNext(&body, m)
			}
			if c.RawPrefix != nil {
				body.Write(c.RawPrefix)
				if size, n := protowire.ConsumeVarint(c.RawPrefix); n < 0 || size != 0 {
					body.Write(bytes.Repeat([]byte{0xff}, 32))
				}
			}
		}
		res = drive.Serve(mux, drive.Request("POST", "/c8/stream", "", hdr, bytes.NewReader(body.Bytes()), -1))
	case "httpbody-unary":
		hdr.Set("Content-Type", "application/x-raw")
		hdr.Set("Accept", "application/json")
		res = drive.Serve(mux, drive.Request("POST", "/c8/raw/n1", "", hdr, bytes.NewReader(msgs[0]), int64(len(msgs[0]))))
	case "httpbody-stream":
		hdr.Set("Content-Type", "application/x-raw")
		hdr.Set("Accept", "application/json")
		res = drive.Serve(mux, drive.Request("POST", "/c8/rawstream/n1", "", hdr, bytes.NewReader(msgs[0]), -1))
	case "grpc", "grpc-gzip", "grpcweb", "grpcweb-gzip", "grpcwebtext":
		for _, m := range msgs {
			body.Write(drive.GRPCFrame(m, in.compressed))
		}
		if in.compressed {
			hdr.Set("Grpc-Encoding", "gzip")
		}
		switch {
		case strings.HasPrefix(c.Cell, "grpcwebtext"):
			hdr.Set("Content-Type", "application/grpc-web-text+proto")
			b := []byte(base64.StdEncoding.EncodeToString(body.Bytes()))
			res = drive.Serve(mux, drive.Request("POST", "/un.C8/Stream", "", hdr, bytes.NewReader(b), -1))
		case strings.HasPrefix(c.Cell, "grpcweb"):
			hdr.Set("Content-Type", "application/grpc-web+proto")
			res = drive.Serve(mux, drive.Request("POST", "/un.C8/Stream", "", hdr, bytes.NewReader(body.Bytes()), -1))
		default:
			res = drive.Serve(mux, drive.GRPCRequest("/un.C8/Stream", hdr, bytes.NewReader(body.Bytes()), "application/grpc"))
		}
	case "ws":
		wsErr = runWS(mux, msgs, c.Frag)
	default:
		panic("cell " + c.Cell)
	}
	if res.Panic != nil {
		return fail("panic", res.PanicSig(), "panic: %v\n%s", res.Panic, res.Stack)
	}

	// ---- (a) no over-limit delivery ----
	firstOver := -1
	for i, sz := range c.Sizes {
		if sz > c.L {
			firstOver = i
			break
		}
	}
	if strings.HasPrefix(c.Cell, "httpbody") {
		for i, n := range rec.rawSizes {
			if n > c.L {
				return fail("over-limit-delivery", "over-limit-delivery", "HttpBody message %d carries %d bytes > limit %d", i, n, c.L)
			}
		}
	} else {
		for _, id := range rec.ids {
			if id >= 1 && id <= len(c.Sizes) && c.Sizes[id-1] > c.L {
				return fail("over-limit-delivery", "over-limit-delivery", "handler received message %d whose encoded size %d exceeds the receive limit %d (cell %s)", id, c.Sizes[id-1], c.L, c.Cell)
			}
		}
	}
	// client-visible success?
	ok := false
	switch {
	case c.Cell == "ws":
		ok = wsErr == ""
	case strings.HasPrefix(c.Cell, "grpc"):
		st := res.Trailer.Get("Grpc-Status")
		if st == "" {
			st = res.Hdr.Get("Grpc-Status")
		}
		if strings.HasPrefix(c.Cell, "grpcweb") {
			st = webStatus(c, res)
		}
		ok = st == "0"
	default:
		ok = res.Rec.Code == 200
	}
	overStream := c.Cell == "httpbody-stream" // chunking is a framing, never a refusal
	if firstOver >= 0 && !overStream {
		if ok {
			return fail("over-limit-accepted", "over-limit-not-refused", "message %d of %d bytes exceeds limit %d but the call succeeded (cell %s)", firstOver+1, c.Sizes[firstOver], c.L, c.Cell)
		}
		return nil, in
	}
	if c.RawPrefix != nil {
		size, n := protowire.ConsumeVarint(c.RawPrefix)
		if n < 0 || size != 0 {
			if ok {
				return fail("over-limit-accepted", "absurd-prefix-accepted", "prefix %x accepted", c.RawPrefix)
			}
			return nil, in
		}
	}
	// ---- (b) no spurious refusal ----
	replyWithin := c.S == 0 || c.ReplySize <= c.S
	if jsonCell && c.S > 0 && c.ReplySize+8 > c.S {
		// larking encodes JSON replies with protojson, whose whitespace is
		// deliberately unstable: sizes within a few bytes of S are undecided.
		replyWithin = false
	}
	if !replyWithin {
		return nil, in // replies over S are not asserted
	}
	if !ok {
		detail := wsErr
		if c.Cell != "ws" {
			detail = fmt.Sprintf("status %d trailer %v body %q", res.Rec.Code, res.Trailer, trunc(res.Rec.Body.Bytes()))
		}
		which := "request"
		if c.ReplySize > c.L {
			which = "reply-over-receive-limit"
		}
		return fail("spurious-refusal", "refused-within-limits:"+which, "sizes %v within receive limit %d and reply %d within send limit %d, but the call failed: %s", c.Sizes, c.L, c.ReplySize, c.S, detail)
	}
	if !strings.HasPrefix(c.Cell, "httpbody") && len(rec.ids) != len(c.Sizes)+boolInt(c.RawPrefix != nil) {
		return fail("spurious-refusal", "message-missing", "handler received ids %v, want %d messages", rec.ids, len(c.Sizes))
	}
	// reply intact (in-process cells)
	if c.ReplySize > 0 && c.Cell != "ws" {
		if !bytes.Contains(decodeBody(c, res), bytes.Repeat([]byte("a"), max(c.ReplySize-40, 1))) {
			return fail("reply-not-intact", "reply-not-intact", "reply of %d bytes not found in response (%d bytes)", c.ReplySize, res.Rec.Body.Len())
		}
	}
	_ = replyBytes
	return nil, in
}

func boolInt(b bool) int {
	if b {
		return 1
	}
	return 0
}

func decodeBody(c Case, res drive.Result) []byte {
	b := res.Rec.Body.Bytes()
	if c.Cell == "grpcwebtext" {
		if d, err := drive.DecodeWebText(b); err == nil {
			return d
		}
	}
	if strings.HasPrefix(c.Cell, "grpc") {
		if fr, err := drive.ParseFrames(b); err == nil {
			var out []byte
			for _, f := range fr {
				out = append(out, f.Payload...)
			}
			return out
		}
	}
	return b
}

func webStatus(c Case, res drive.Result) string {
	b := res.Rec.Body.Bytes()
	if c.Cell == "grpcwebtext" {
		d, err := drive.DecodeWebText(b)
		if err != nil {
			return "undecodable"
		}
		b = d
	}
	fr, err := drive.ParseFrames(b)
	if err != nil {
		return "unparsable"
	}
	for _, f := range fr {
		if f.Flag&0x80 != 0 {
			tr, _ := drive.ParseWebTrailer(f.Payload)
			return tr.Get("grpc-status")
		}
	}
	return res.Hdr.Get("Grpc-Status")
}

func trunc(b []byte) []byte {
	if len(b) > 160 {
		return b[:160]
	}
	return b
}

// ---- WebSocket over a real listener ----

var (
	wsOnce sync.Once
	wsSrv  *httptest.Server
	wsCur  atomic.Value
)

// writeFragmented sends one message as a FIN=0 first frame and continuation frames.
func writeFragmented(conn io.Writer, m []byte, frag int) error {
	for off := 0; ; off += frag {
		end := off + frag
		fin := end >= len(m)
		if fin {
			end = len(m)
		}
		op := ws.OpContinuation
		if off == 0 {
			op = ws.OpText
		}
		f := ws.NewFrame(op, fin, append([]byte{}, m[off:end]...))
		if err := ws.WriteFrame(conn, ws.MaskFrameInPlaceWith(f, ws.NewMask())); err != nil {
			return err
		}
		if fin {
			return nil
		}
	}
}

func runWS(mux http.Handler, msgs [][]byte, frag int) string {
	wsOnce.Do(func() {
		wsSrv = httptest.NewServer(http.HandlerFunc(func(w http.ResponseWriter, r *http.Request) {
			wsCur.Load().(http.Handler).ServeHTTP(w, r)
		}))
	})
	wsCur.Store(mux)
	ctx, cancel := context.WithTimeout(context.Background(), 10*time.Second)
	defer cancel()
	conn, br, _, err := ws.Dial(ctx, "ws"+strings.TrimPrefix(wsSrv.URL, "http")+"/c8/ws")
	if err != nil {
		return "dial: " + err.Error()
	}
	defer conn.Close()
	conn.SetDeadline(time.Now().Add(10 * time.Second))
	var rd io.Reader = conn
	if br != nil {
		rd = br
	}
	for _, m := range msgs {
		var err error
		if frag > 0 && len(m) > frag {
			err = writeFragmented(conn, m, frag)
		} else {
			err = wsutil.WriteClientMessage(conn, ws.OpText, m)
		}
		if err != nil {
			break // the server may already have closed
		}
	}
	gotReply := false
	for {
		f, err := ws.ReadFrame(rd)
		if err != nil {
			return "read: " + err.Error()
		}
		switch f.Header.OpCode {
		case ws.OpText:
			gotReply = true
		case ws.OpClose:
			code, reason := ws.ParseCloseFrameData(f.Payload)
			if (code == 1000 || len(f.Payload) == 0) && gotReply {
				return ""
			}
			return fmt.Sprintf("close %d %q (reply=%v)", code, reason, gotReply)
		}
	}
}

// ---------------------------------------------------------------------------

var cells = []string{"http-json", "http-proto", "http-json-gzip", "http-proto-gzip", "httpstream-json", "httpstream-proto", "httpbody-unary", "httpbody-stream",
	"grpc", "grpc-gzip", "grpcweb", "grpcweb-gzip", "grpcwebtext"}

func genSize(t *rapid.T, L int, label string) int {
	switch rapid.IntRange(0, 9).Draw(t, label+"k") {
	case 0, 1:
		return L
	case 2, 3:
		return L + 1
	case 4:
		return L - 1
	case 5:
		return 4 * L
	case 6:
		if rapid.IntRange(0, 3).Draw(t, label+"huge") == 0 {
			return 1 << 20
		}
		return 64 * L
	default:
		return rapid.IntRange(20, L).Draw(t, label)
	}
}

func genCase(t *rapid.T, cellPool []string) Case {
	c := Case{Cell: rapid.SampledFrom(cellPool).Draw(t, "cell")}
	c.L = rapid.OneOf(rapid.IntRange(32, 4096), rapid.SampledFrom([]int{32, 64, 127, 128, 129, 1024, 4096})).Draw(t, "L")
	switch rapid.IntRange(0, 3).Draw(t, "Skind") {
	case 0:
		c.S = 0
	case 1:
		c.S = 4 * c.L
	case 2:
		c.S = c.L + rapid.IntRange(-4, 64).Draw(t, "Sd")
	default:
		c.S = rapid.IntRange(c.L, 4*c.L).Draw(t, "S")
	}
	n := 1
	if strings.HasPrefix(c.Cell, "httpstream") || strings.HasPrefix(c.Cell, "grpc") || c.Cell == "ws" {
		n = rapid.IntRange(1, 4).Draw(t, "n")
	}
	c.Granular = !strings.Contains(c.Cell, "json") && c.Cell != "ws" && !strings.HasPrefix(c.Cell, "httpbody") && rapid.IntRange(0, 2).Draw(t, "granular") == 0
	over := rapid.IntRange(0, n).Draw(t, "overIdx") // index of the interesting message; n = none
	for i := 0; i < n; i++ {
		if i == over {
			c.Sizes = append(c.Sizes, genSize(t, c.L, "size"))
		} else {
			c.Sizes = append(c.Sizes, rapid.IntRange(20, c.L).Draw(t, "ok"))
		}
	}
	if strings.HasPrefix(c.Cell, "httpbody") {
		c.Sizes = c.Sizes[:1]
		if rapid.Bool().Draw(t, "zero") && c.Sizes[0] > 4*c.L {
			c.Sizes[0] = 0
		}
	}
	switch rapid.IntRange(0, 4).Draw(t, "replyKind") {
	case 0:
		c.ReplySize = 0
	case 1:
		if c.S > 0 {
			c.ReplySize = c.S + rapid.IntRange(-1, 1).Draw(t, "rd")
		}
	case 2:
		c.ReplySize = c.L + rapid.IntRange(1, 40).Draw(t, "rl")
	default:
		c.ReplySize = rapid.IntRange(20, 2*c.L).Draw(t, "r")
	}
	if c.ReplySize != 0 && c.ReplySize < 20 {
		c.ReplySize = 20
	}
	if c.Cell == "httpstream-proto" && rapid.IntRange(0, 3).Draw(t, "raw") == 0 {
		size := rapid.SampledFrom([]uint64{0, 33, uint64(c.L) + 1, 1 << 31, 1 << 32, 1 << 62, 1 << 63, 1<<63 + 1, math.MaxUint64}).Draw(t, "psize")
		p := protowire.AppendVarint(nil, size)
		if rapid.IntRange(0, 4).Draw(t, "overlong") == 0 && len(p) < 9 {
			p[len(p)-1] |= 0x80
			for len(p) < 9 {
				p = append(p, 0x80)
			}
			p = append(p, 0)
		}
		c.RawPrefix = p
		for i := range c.Sizes {
			if c.Sizes[i] > c.L {
				c.Sizes[i] = c.L
			}
		}
	}
	return c
}

func record1(c Case, in info) {
	cl := []string{"cell=" + c.Cell}
	if c.Granular {
		cl = append(cl, "granular-messages")
	}
	if in.boundary {
		cl = append(cl, "boundary")
	}
	if in.compressed {
		cl = append(cl, "compressed")
	}
	if in.bigPrefix {
		cl = append(cl, "raw-prefix")
	}
	anyOver := false
	for _, s := range c.Sizes {
		anyOver = anyOver || s > c.L
	}
	if anyOver {
		cl = append(cl, "over-limit")
	}
	key := ""
	if in.boundary || (in.compressed && anyOver) || in.bigPrefix {
		var bc []string
		for _, s := range c.Sizes {
			switch {
			case s == c.L:
				bc = append(bc, "=L")
			case s == c.L+1:
				bc = append(bc, "L+1")
			case s == c.L-1:
				bc = append(bc, "L-1")
			case s > c.L:
				bc = append(bc, ">L")
			default:
				bc = append(bc, "<L")
			}
		}
		key = fmt.Sprintf("%s|%v|%d|%d|%s|%x|%d", c.Cell, bc, c.L, c.S, strconv.Itoa(c.ReplySize), c.RawPrefix, c.Frag) + fmt.Sprint(c.Granular)
		if c.Frag > 0 {
			cl = append(cl, "ws-fragmented")
		}
	}
	evid.Eval(key, cl...)
}

func TestProp(t *testing.T) {
	rapid.Check(t, func(t *rapid.T) {
		c := genCase(t, cells)
		vs, in := Check(c)
		record1(c, in)
		evid.Sample(c.Cell, c)
		evid.Report(t, prop, c, vs)
	})
}

func TestPropWS(t *testing.T) {
	rapid.Check(t, func(t *rapid.T) {
		c := genCase(t, []string{"ws"})
		if c.ReplySize > c.L {
			c.ReplySize = 0
		}
		if rapid.Bool().Draw(t, "fragmented") {
			// fragments within the limit: the limit is on the message, not on a frame
			c.Frag = rapid.SampledFrom([]int{1, 7, c.L / 2, c.L - 1, c.L}).Draw(t, "frag")
			if c.Frag < 1 {
				c.Frag = 1
			}
		}
		vs, in := Check(c)
		record1(c, in)
		evid.Sample(c.Cell, c)
		evid.Report(t, prop, c, vs)
	})
}

func TestReplay(t *testing.T) {
	path := os.Getenv("VERIF_REPLAY")
	if path == "" {
		t.Skip("VERIF_REPLAY not set")
	}
	var c Case
	if err := evid.LoadReplay(path, &c); err != nil {
		t.Fatal(err)
	}
	vs, _ := Check(c)
	evid.Report(t, prop, c, vs)
}

var _ = httpbody.File_google_api_httpbody_proto
