// C02 — routing completeness, literal precedence, order independence.
package c02

import (
	"fmt"
	"os"
	"strings"
	"testing"

	"google.golang.org/protobuf/proto"
	"pgregory.net/rapid"

	"verif/drive"
	"verif/evid"
	"verif/ref"
	"verif/route"
)

const prop = "C02"

func TestMain(m *testing.M) {
	code := m.Run()
	evid.Flush()
	os.Exit(code)
}

type Req struct {
	Verb string `json:"verb"`
	Path string `json:"path"`
	// Raw: how the client spelled the path on the request line when that is not the canonical
	// escaping (percent-encoded unreserved characters, lower-case hex, ...); it decodes to Path.
	Raw string `json:"raw,omitempty"`
}

// Case: a conflict-free rule set, a registration permutation and requests
// instantiated from templates of the set.
type Case struct {
	Rules  route.RuleSet `json:"rules"`
	Order  []int         `json:"order"`  // registration order of services on the second mux
	Rotate []int         `json:"rotate"` // per method: index of the binding that becomes primary on the second mux
	Reqs   []Req         `json:"reqs"`
}

func rotated(rs route.RuleSet, rot []int) route.RuleSet {
	out := make(route.RuleSet, len(rs))
	for i, mr := range rs {
		n := len(mr.Bindings)
		k := 0
		if i < len(rot) && n > 0 {
			k = ((rot[i] % n) + n) % n
		}
		bs := append(append([]route.Binding{}, mr.Bindings[k:]...), mr.Bindings[:k]...)
		out[i] = route.MethodRules{Bindings: bs}
	}
	return out
}

type member struct {
	ow       route.Owned
	bind     ref.Binding
	expected []proto.Message
	steps    []ref.Step
}

func exactVerb(ruleVerb, reqVerb string) bool {
	return ruleVerb == "*" || strings.ToUpper(ruleVerb) == reqVerb
}

// dominated reports whether t is beaten by some u in ms under the literal
// precedence clause for the given path segments.
func dominated(t member, ms []member, segs []string) bool {
	for _, u := range ms {
		if u.ow.T == t.ow.T {
			continue
		}
		// walk common identical prefix
		si := 0 // path segment index reached by both
		for j := 0; j < len(t.steps) && j < len(u.steps); j++ {
			ts, us := t.steps[j], u.steps[j]
			if ts == us {
				if ts.Lit {
					if !strings.HasPrefix(ts.Text, ":") {
						si++
					}
				} else {
					// same variable pattern: both cover the same number of
					// segments only if the pattern is fixed-length; stop
					// comparing at variable-length patterns.
					if strings.Contains(ts.Text, "**") {
						break
					}
					si += strings.Count(ts.Text, "/") + 1
				}
				continue
			}
			// first difference
			if us.Lit && !ts.Lit && si < len(segs) && (us.Text == segs[si] || strings.HasPrefix(us.Text, ":")) {
				return true
			}
			break
		}
	}
	return false
}

func pathSegs(p string) []string {
	rest := strings.TrimPrefix(p, "/")
	if i := strings.LastIndex(rest, ":"); i >= 0 {
		rest = rest[:i]
	}
	return strings.Split(rest, "/")
}

type reqInfo struct {
	w          int
	dispatched bool
	skipped    bool
	moved      bool
	multiCap   bool
}

// Check applies the three clauses.
var refusedPaths = []string{"/v1" + strings.Repeat("/a", 40), "/v1/a b/c", "/v1/{x}", "/" + strings.Repeat("v1:", 40), "/v1/\x00"}

func Check(c Case) ([]evid.Violation, []reqInfo) {
	var vs []evid.Violation
	infos := make([]reqInfo, len(c.Reqs))
	a := route.Build(c.Rules, nil)
	b := route.Build(rotated(c.Rules, c.Rotate), c.Order)
	for _, x := range []*route.Built{a, b} {
		if x.Panic != nil {
			vs = append(vs, evid.V("registration-panic", "registration-panic@"+topFrame(x.Stack), "registration panicked: %v", x.Panic))
		}
	}
	for i := range c.Rules {
		if a.Accepted[i] != b.Accepted[i] {
			vs = append(vs, evid.V("order-dependence", "registration-verdict-order-dependent", "service %d accepted=%v in natural order (%s) but accepted=%v in order %v rot %v (%s)",
				i, a.Accepted[i], a.Errs[i], b.Accepted[i], c.Order, c.Rotate, b.Errs[i]))
		}
	}
	if len(vs) > 0 {
		return vs, infos
	}
	owned := c.Rules.Owned(a.Accepted)
	md := route.ReqDesc(a.World)
	for i, r := range c.Reqs {
		var W []member
		convertible := true
		for _, ow := range owned {
			if !exactVerb(ow.B.Verb, r.Verb) {
				continue
			}
			for _, bind := range ow.T.MatchStrict(r.Path) {
				m := member{ow: ow, bind: bind, steps: ow.T.Steps()}
				m.expected = route.Expected(md, ow.T.Vars(), bind)
				if len(m.expected) == 0 {
					convertible = false
				}
				W = append(W, m)
			}
		}
		infos[i].w = len(W)
		if i%3 == 1 {
			// earlier traffic the mux had to refuse (a path beyond the token limit, one with a character outside
			// the documented set) says nothing about the next request
			a.Do("GET", refusedPaths[i%len(refusedPaths)], "")
		}
		oa := a.DoTarget(r.Verb, r.Path, r.Raw, "")
		ob := b.DoTarget(r.Verb, r.Path, r.Raw, "")
		infos[i].dispatched = oa.Method != ""
		// (3) order independence
		if !oa.Equal(ob) {
			vs = append(vs, evid.V("order-dependence", "outcome-order-dependent", "%s %q: natural order -> %v; order %v rot %v -> %v", r.Verb, r.Path, oa, c.Order, c.Rotate, ob))
			continue
		}
		if len(W) == 0 {
			continue
		}
		if !convertible {
			infos[i].skipped = true
			continue
		}
		for _, m := range W {
			for _, s := range m.ow.T.Segs {
				if s.Kind == ref.Var && len(s.Pat) > 0 && (len(s.Pat) > 1 || s.Pat[0].Kind == ref.StarStar) {
					infos[i].multiCap = true
				}
			}
		}
		// (1) completeness
		if oa.Method == "" {
			var names []string
			for _, m := range W {
				names = append(names, m.ow.B.Verb+" "+m.ow.B.Tmpl)
			}
			sig := "matching-rule-not-dispatched"
			if oa.Panic != "" {
				sig = "panic-on-matching-path"
			}
			vs = append(vs, evid.V("completeness", sig+":"+feature(W), "%s %q matches %v but got %v", r.Verb, r.Path, names, oa))
			continue
		}
		// (2) precedence + message
		segs := pathSegs(r.Path)
		okMethod, okMsg := false, false
		for _, m := range W {
			if route.MethodName(m.ow.Svc) != oa.Method {
				continue
			}
			if dominated(m, W, segs) {
				continue
			}
			okMethod = true
			for _, e := range m.expected {
				if proto.Equal(e, oa.Msg) {
					okMsg = true
				}
			}
		}
		if !okMethod {
			var names []string
			for _, m := range W {
				names = append(names, fmt.Sprintf("%s %s (svc %d, dominated=%v)", m.ow.B.Verb, m.ow.B.Tmpl, m.ow.Svc, dominated(m, W, segs)))
			}
			vs = append(vs, evid.V("precedence", "", "%s %q dispatched to %s; matching rules: %v", r.Verb, r.Path, oa.Method, names))
		} else if !okMsg {
			vs = append(vs, evid.V("message", "wrong-captures", "%s %q dispatched to %s with {%v}; expected captures %v", r.Verb, r.Path, oa.Method, oa.Msg, W[0].bind))
		}
	}
	return vs, infos
}

// feature names the template feature of the (first) undispatched member.
func feature(W []member) string {
	t := W[0].ow.T
	atoms := t.Atoms()
	f := ""
	if len(atoms) > 0 && atoms[len(atoms)-1].Kind == ref.StarStar {
		f = "trailing-**"
		if atoms[len(atoms)-1].Var >= 0 {
			lits := 0
			for _, a := range atoms {
				if a.Var == atoms[len(atoms)-1].Var && a.Kind == ref.Lit {
					lits++
				}
			}
			if lits > 0 {
				f = "var-literal-prefix-**"
			}
		}
	}
	if t.Verb != "" {
		f += "+verb"
	}
	if f == "" {
		f = "plain"
	}
	return f
}

func topFrame(stack string) string {
	for _, line := range strings.Split(stack, "\n") {
		if i := strings.Index(line, "larking.io/larking."); i >= 0 && !strings.Contains(line, "Verif") {
			fn := line[i+len("larking.io/larking."):]
			if j := strings.LastIndex(fn, "("); j > 0 {
				fn = fn[:j]
			}
			return strings.NewReplacer("(", "", ")", "", "*", "").Replace(fn)
		}
	}
	return "unknown"
}

func genCase(t *rapid.T) Case {
	rs := route.ConflictFree(route.GenOverlappingRuleSet(t, route.GenOpts{StarStarOnlyLast: true}, 6))
	for i := range rs {
		// a rule may spell the method's implicit route out (legal, the same mapping as the implicit binding):
		// the rule's other bindings must be bound all the same, wherever in the rule it stands
		if rapid.IntRange(0, 7).Draw(t, "spellImplicit") == 0 {
			rs[i].Bindings = append([]route.Binding{{Verb: "POST", Tmpl: route.MethodName(i), Body: "*"}}, rs[i].Bindings...)
		}
	}
	c := Case{Rules: rs}
	if len(rs) == 0 {
		return c
	}
	c.Order = rapid.Permutation(seq(len(rs))).Draw(t, "order")
	for range rs {
		c.Rotate = append(c.Rotate, rapid.IntRange(0, 2).Draw(t, "rot"))
	}
	var tms []*ref.Template
	var verbs []string
	for i, mr := range rs {
		for _, b := range mr.Bindings {
			tm, _ := ref.ParseTemplate(b.Tmpl)
			tms = append(tms, tm)
			verbs = append(verbs, b.Verb)
		}
		it, _ := ref.ParseTemplate(route.MethodName(i))
		tms = append(tms, it)
		verbs = append(verbs, "*")
	}
	n := rapid.IntRange(6, 12).Draw(t, "nreqs")
	for i := 0; i < n; i++ {
		ti := rapid.IntRange(0, len(tms)-1).Draw(t, "ti")
		path, _ := route.Instantiate(t, tms[ti], 4, tms...)
		verb := strings.ToUpper(verbs[ti])
		if verb == "*" {
			verb = rapid.SampledFrom([]string{"GET", "POST", "PUT", "DELETE", "PATCH", "SEARCH", "HEAD"}).Draw(t, "rv")
		}
		rq := Req{Verb: verb, Path: path}
		if rapid.IntRange(0, 3).Draw(t, "spelled") == 0 {
			at := rapid.IntRange(0, len(path)-1).Draw(t, "spellAt")
			how := rapid.IntRange(1, 2).Draw(t, "spellHow")
			all := rapid.IntRange(0, 3).Draw(t, "spellAll") == 0
			rq.Raw = drive.Spell(path, func(i int) int {
				if all || i == at {
					return how
				}
				return 0
			})
			if rapid.Bool().Draw(t, "spellSlash") {
				rq.Raw += "/" // one trailing slash, which the mux trims before routing
			}
		}
		c.Reqs = append(c.Reqs, rq)
	}
	return c
}

func seq(n int) []int {
	out := make([]int, n)
	for i := range out {
		out[i] = i
	}
	return out
}

func record(c Case, infos []reqInfo) {
	natural := true
	for i, o := range c.Order {
		if o != i {
			natural = false
		}
	}
	for i, r := range c.Reqs {
		in := infos[i]
		var cl []string
		key := ""
		switch {
		case in.skipped:
			cl = append(cl, "skipped-unconvertible")
		case in.w == 0:
			cl = append(cl, "W=0")
		case in.w == 1:
			cl = append(cl, "W=1")
		default:
			cl = append(cl, "W>=2")
		}
		if in.multiCap {
			cl = append(cl, "multi-segment-capture")
		}
		if !natural {
			cl = append(cl, "permuted-order")
		}
		if in.dispatched {
			cl = append(cl, "dispatched")
		}
		if strings.Contains(r.Path, ":") {
			cl = append(cl, "path-with-verb")
		}
		if !in.skipped && (in.w >= 2 || in.multiCap || !natural) && in.w > 0 {
			key = fmt.Sprintf("%d|%v|%v|%s|%s", in.w, in.multiCap, natural, r.Verb, skeleton(r.Path))
		}
		evid.Eval(key, cl...)
	}
}

func skeleton(p string) string {
	var sb strings.Builder
	for _, s := range strings.FieldsFunc(p, func(r rune) bool { return r == '/' }) {
		isLit := false
		for _, l := range route.LitPool {
			if s == l {
				isLit = true
			}
		}
		if isLit {
			sb.WriteString("/" + s)
		} else if strings.Contains(s, ":") {
			sb.WriteString("/s:v")
		} else {
			sb.WriteString("/s")
		}
	}
	return sb.String()
}

func TestProp(t *testing.T) {
	rapid.Check(t, func(t *rapid.T) {
		c := genCase(t)
		if len(c.Rules) == 0 {
			t.Skip("empty rule set")
		}
		vs, infos := Check(c)
		record(c, infos)
		evid.Sample("case", c)
		evid.Report(t, prop, c, vs)
	})
}

func TestReplay(t *testing.T) {
	path := os.Getenv("VERIF_REPLAY")
	if path == "" {
		t.Skip("VERIF_REPLAY not set")
	}
	var c Case
	if err := evid.LoadReplay(path, &c); err != nil {
		t.Fatal(err)
	}
	vs, _ := Check(c)
	evid.Report(t, prop, c, vs)
}
