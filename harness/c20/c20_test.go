// C20 — server mount prefixes are transparent.
package c20

import (
	"bytes"
	"encoding/binary"
	"fmt"
	"io"
	"net/http"
	"os"
	"sort"
	"strings"
	"testing"
	"time"

	"google.golang.org/grpc/test/bufconn"
	"google.golang.org/protobuf/proto"
	"google.golang.org/protobuf/reflect/protoreflect"
	"google.golang.org/protobuf/types/dynamicpb"
	"larking.io/larking"
	"pgregory.net/rapid"

	"verif/drive"
	"verif/evid"
	"verif/ref"
	"verif/route"
)

const prop = "C20"

func TestMain(m *testing.M) {
	code := m.Run()
	evid.Flush()
	os.Exit(code)
}

type Req struct {
	Proto   string `json:"proto"`  // http | twirp | grpc | grpcweb
	Verb    string `json:"verb"`   // for http
	Prefix  string `json:"prefix"` // prepended to MuxPath
	MuxPath string `json:"mux_path"`
	Query   string `json:"query"`
	Body    string `json:"body"` // JSON text (http/twirp) or message name field value (grpc*)
}

type Case struct {
	Patterns []string `json:"patterns"`
	Extras   []string `json:"extras"` // extra handler patterns
	Reqs     []Req    `json:"reqs"`
	Wire     bool     `json:"wire"` // http/twirp requests are also sent over real HTTP/1.1 connections and the raw response bytes compared (what net/http itself does with a response - HEAD bodies, framing - depends on the request object the handler chain leaves behind)
}

var rules = route.RuleSet{
	{Bindings: []route.Binding{{Verb: "GET", Tmpl: "/v1/{name}"}, {Verb: "POST", Tmpl: "/v1/{name}:act", Body: "*"}, {Verb: "PATCH", Tmpl: "/v1/{name}", Body: "sub"}}},
	{Bindings: []route.Binding{{Verb: "GET", Tmpl: "/v1/books/{sub.name=shelves/*}"}, {Verb: "*", Tmpl: "/any/{parent=**}"}}},
}

type outcome struct {
	status   int
	header   string
	body     string
	trailer  string
	method   string
	msg      string
	panicked string
}

func flatHeader(h http.Header) string {
	var ks []string
	for k := range h {
		if k == "Date" {
			continue
		}
		ks = append(ks, k)
	}
	sort.Strings(ks)
	var sb strings.Builder
	for _, k := range ks {
		fmt.Fprintf(&sb, "%s=%q;", k, h[k])
	}
	return sb.String()
}

func grpcFrame(name string) []byte {
	w := route.WorldRules(nil)
	m := dynamicpb.NewMessage(route.ReqDesc(w))
	m.Set(m.Descriptor().Fields().ByName("name"), protoValue(name))
	b, _ := proto.Marshal(m)
	out := make([]byte, 5+len(b))
	binary.BigEndian.PutUint32(out[1:], uint32(len(b)))
	copy(out[5:], b)
	return out
}

func build(r Req, path string) *http.Request {
	hdr := http.Header{}
	switch r.Proto {
	case "twirp":
		hdr.Set("Twirp-Version", "7")
		hdr.Set("Content-Type", "application/json")
		return drive.Request("POST", path, r.Query, hdr, bytes.NewReader([]byte(r.Body)), int64(len(r.Body)))
	case "grpc":
		return drive.GRPCRequest(path, hdr, bytes.NewReader(grpcFrame(r.Body)), "application/grpc")
	case "grpcweb":
		hdr.Set("Content-Type", "application/grpc-web+proto")
		f := grpcFrame(r.Body)
		return drive.Request("POST", path, "", hdr, bytes.NewReader(f), int64(len(f)))
	}
	if r.Body != "" {
		hdr.Set("Content-Type", "application/json")
		return drive.Request(r.Verb, path, r.Query, hdr, bytes.NewReader([]byte(r.Body)), int64(len(r.Body)))
	}
	return drive.Request(r.Verb, path, r.Query, hdr, nil, 0)
}

func run(h http.Handler, rec *route.Recorder, req *http.Request) outcome {
	rec.Take()
	res := drive.Serve(h, req)
	o := outcome{status: res.Rec.Code, header: flatHeader(res.Hdr), body: res.Rec.Body.String()}
	if res.Panic != nil {
		o.panicked = fmt.Sprint(res.Panic)
		return o
	}
	o.trailer = flatHeader(res.Trailer)
	if calls := rec.Take(); len(calls) > 0 {
		o.method = calls[0].Method
		b, _ := proto.MarshalOptions{Deterministic: true}.Marshal(calls[0].Msg)
		o.msg = string(b)
	}
	return o
}

// wire sends req over a fresh HTTP/1.1 connection (in memory: no TCP ports are used) to a real net/http
// server and returns the raw response without its Date line; ok=false when the exchange itself failed
// (never a verdict).
func wire(lis *bufconn.Listener, req *http.Request) (string, bool) {
	conn, err := lis.Dial()
	if err != nil {
		return "", false
	}
	defer conn.Close()
	// (a pending deadline timer keeps the connection's buffers alive until it fires: clear it when done)
	defer conn.SetDeadline(time.Time{})
	conn.SetDeadline(time.Now().Add(30 * time.Second))
	var body []byte
	if req.Body != nil {
		body, _ = io.ReadAll(req.Body)
	}
	var sb bytes.Buffer
	fmt.Fprintf(&sb, "%s %s HTTP/1.1\r\nHost: c20\r\nConnection: close\r\n", req.Method, req.URL.RequestURI())
	keys := make([]string, 0, len(req.Header))
	for k := range req.Header {
		keys = append(keys, k)
	}
	sort.Strings(keys)
	for _, k := range keys {
		for _, v := range req.Header[k] {
			fmt.Fprintf(&sb, "%s: %s\r\n", k, v)
		}
	}
	if len(body) > 0 {
		fmt.Fprintf(&sb, "Content-Length: %d\r\n", len(body))
	}
	sb.WriteString("\r\n")
	sb.Write(body)
	if _, err := conn.Write(sb.Bytes()); err != nil {
		return "", false
	}
	raw, err := io.ReadAll(conn)
	if err != nil || len(raw) == 0 {
		return "", false
	}
	var out []string
	for _, line := range strings.SplitAfter(string(raw), "\r\n") {
		if !strings.HasPrefix(line, "Date: ") {
			out = append(out, line)
		}
	}
	return strings.Join(out, ""), true
}

type extraHandler struct{ hits *[]string }

func (e extraHandler) ServeHTTP(w http.ResponseWriter, r *http.Request) {
	*e.hits = append(*e.hits, r.URL.Path)
	w.Header().Set("X-Extra", "1")
	w.WriteHeader(http.StatusTeapot)
}

func prefixOf(pattern string) string { return strings.TrimSuffix(pattern, "/") }

type info struct{ served200, nearMiss, nested, wired int }

func Check(c Case) ([]evid.Violation, info) {
	var vs []evid.Violation
	var in info
	b := route.Build(rules, nil)
	var hits []string
	opts := []larking.ServerOption{larking.MuxHandleOption(c.Patterns...)}
	var extraOpts []larking.ServerOption
	for _, e := range c.Extras {
		extraOpts = append(extraOpts, larking.HTTPHandlerOption(e, extraHandler{&hits}))
	}
	// (the extra-handler options come first, so that they are what a server sees first)
	opts = append(append([]larking.ServerOption{}, extraOpts...), opts...)
	var srv *http.Server
	var err error
	func() {
		defer func() {
			if p := recover(); p != nil {
				err = fmt.Errorf("panic: %v", p)
			}
		}()
		srv, err = larking.NewServer(b.Mux, opts...)
	}()
	if err != nil {
		return []evid.Violation{evid.V("new-server", "", "NewServer(%v, extras %v): %v", c.Patterns, c.Extras, err)}, in
	}
	if len(extraOpts) > 0 {
		// the same option VALUES build a second server with another mount: two servers share nothing, so
		// neither serves the other's prefix
		var other *http.Server
		func() {
			defer func() {
				if p := recover(); p != nil {
					err = fmt.Errorf("panic: %v", p)
				}
			}()
			other, err = larking.NewServer(b.Mux, append(append([]larking.ServerOption{}, extraOpts...), larking.MuxHandleOption("/zz-other"))...)
		}()
		if err != nil {
			return []evid.Violation{evid.V("new-server", "second-server", "a second NewServer with the same extra-handler options and mount /zz-other: %v", err)}, in
		}
		if got := run(srv.Handler, b.Rec, build(Req{Proto: "http", Verb: "GET"}, "/zz-other/v1/abc")); got.method != "" {
			vs = append(vs, evid.V("served-outside-prefix", "other-servers-mount", "patterns %v extras %v: /zz-other/v1/abc is a mount of ANOTHER server built from the same option values, but this server's mux served it (%+v)", c.Patterns, c.Extras, got))
		}
		for _, pat := range c.Patterns {
			if pre := prefixOf(pat); pre != "" {
				if got := run(other.Handler, b.Rec, build(Req{Proto: "http", Verb: "GET"}, pre+"/v1/abc")); got.method != "" {
					vs = append(vs, evid.V("served-outside-prefix", "other-servers-mount", "the server mounted on /zz-other alone served %s/v1/abc, a mount of the server built before it from the same option values (%+v)", pre, got))
				}
			}
		}
	}
	// the on-the-wire comparison has a mux, a server and connections of its own: nothing it does (late
	// handler goroutines of net/http included) can reach the recorder the in-process comparison reads
	var wsSrv, wsMux *bufconn.Listener
	if c.Wire {
		b2 := route.Build(rules, nil)
		var hits2 []string
		opts2 := []larking.ServerOption{larking.MuxHandleOption(c.Patterns...)}
		for _, e := range c.Extras {
			opts2 = append(opts2, larking.HTTPHandlerOption(e, extraHandler{&hits2}))
		}
		srv2, err := larking.NewServer(b2.Mux, opts2...)
		if err != nil {
			return []evid.Violation{evid.V("new-server", "", "second NewServer(%v, extras %v): %v", c.Patterns, c.Extras, err)}, in
		}
		wsSrv, wsMux = bufconn.Listen(64<<10), bufconn.Listen(64<<10)
		for lis, h := range map[*bufconn.Listener]http.Handler{wsSrv: srv2.Handler, wsMux: b2.Mux} {
			hs := &http.Server{Handler: h}
			go hs.Serve(lis)
			defer hs.Close()
		}
	}
	hasRoot := false
	for _, p := range c.Patterns {
		if prefixOf(p) == "" {
			hasRoot = true
		}
	}
	for _, r := range c.Reqs {
		full := r.Prefix + r.MuxPath
		// extra handler?
		extra := ""
		for _, e := range c.Extras {
			if (strings.HasSuffix(e, "/") && strings.HasPrefix(full, e)) || full == e {
				if len(e) > len(extra) {
					extra = e
				}
			}
		}
		// longest configured mount prefix (ServeMux semantics: pattern prefix+"/")
		best, found := "", false
		for _, p := range c.Patterns {
			pre := prefixOf(p)
			if strings.HasPrefix(full, pre+"/") && (!found || len(pre) > len(best)) {
				best, found = pre, true
			}
		}
		hits = nil
		got := run(srv.Handler, b.Rec, build(r, full))
		if got.panicked != "" {
			vs = append(vs, evid.V("panic", "", "panic serving %+v: %s", r, got.panicked))
			continue
		}
		switch {
		case extra != "" && (!found || len(extra) > len(best)+1):
			if len(hits) != 1 || hits[0] != full || got.status != http.StatusTeapot {
				vs = append(vs, evid.V("extra-handler", "", "patterns %v extras %v: %s should reach extra handler %q with its original path; hits=%v status=%d", c.Patterns, c.Extras, full, extra, hits, got.status))
			}
			if got.method != "" {
				vs = append(vs, evid.V("extra-handler", "mux-served-extra", "mux served %s which belongs to extra pattern %q", full, extra))
			}
		case extra != "":
			// ambiguous precedence between an extra pattern and a mount: not generated
		case found:
			want := run(b.Mux, b.Rec, build(r, full[len(best):]))
			if got != want {
				vs = append(vs, evid.V("prefix-not-transparent", "", "patterns %v: %s %s %s under prefix %q -> %+v ; bare mux on %q -> %+v", c.Patterns, r.Proto, r.Verb, full, best, got, full[len(best):], want))
			}
			if c.Wire && (r.Proto == "http" || r.Proto == "twirp") {
				wgot, ok1 := wire(wsSrv, build(r, full))
				wwant, ok2 := wire(wsMux, build(r, full[len(best):]))
				if ok1 && ok2 {
					in.wired++
					if wgot != wwant {
						vs = append(vs, evid.V("prefix-not-transparent", "on-the-wire", "patterns %v: %s %s %s under prefix %q answers on the wire %q ; bare mux on %q answers %q", c.Patterns, r.Proto, r.Verb, full, best, wgot, full[len(best):], wwant))
					}
				}
			}
			if got.status == 200 && best != "" {
				in.served200++
			}
			if strings.Count(best, "/") > 1 {
				in.nested++
			}
		default:
			if got.method != "" || len(hits) > 0 {
				vs = append(vs, evid.V("served-outside-prefix", "", "patterns %v: %s is outside every prefix but was served (%+v)", c.Patterns, full, got))
			} else if got.status != http.StatusNotFound {
				vs = append(vs, evid.V("served-outside-prefix", "status", "patterns %v: %s outside every prefix -> status %d, want 404", c.Patterns, full, got.status))
			}
			in.nearMiss++
		}
		_ = hasRoot
	}
	return vs, in
}

var patternPool = []string{"/", "/api/", "/pfx", "/twirp", "/a", "/a/b", "/api", "/a/", "/a/b/", "/x.y/", "/twirp/"}
var nearPrefixes = []string{"/bad", "/apix", "/pf", "/a/bx", "/ap", "/twir", "/A", "/api/v2"}
var muxPaths = []string{"/v1/abc", "/v1/abc:act", "/v1/books/shelves/s1", "/any/x/y", "/nope", "/v1", "/rt.Svc0/Mth", "/rt.Svc1/Mth", "/v1/é", "/v1/abc/", "/any/api/v1/x", "/a/b/v1/q"}

func genCase(t *rapid.T) Case {
	var c Case
	n := rapid.IntRange(1, 4).Draw(t, "npat")
	seen := map[string]bool{}
	for i := 0; i < n; i++ {
		p := rapid.SampledFrom(patternPool).Draw(t, "pattern")
		if seen[prefixOf(p)] {
			continue
		}
		seen[prefixOf(p)] = true
		c.Patterns = append(c.Patterns, p)
	}
	if rapid.Bool().Draw(t, "extras") {
		for _, e := range []string{"/extra/", "/static"} {
			if rapid.Bool().Draw(t, "extra"+e) {
				c.Extras = append(c.Extras, e)
			}
		}
	}
	c.Wire = rapid.IntRange(0, 19).Draw(t, "wire") == 0
	nr := rapid.IntRange(4, 10).Draw(t, "nreq")
	for i := 0; i < nr; i++ {
		var r Req
		r.Proto = rapid.SampledFrom([]string{"http", "http", "http", "twirp", "grpc", "grpcweb"}).Draw(t, "proto")
		switch rapid.IntRange(0, 9).Draw(t, "pfxkind") {
		case 0, 1:
			r.Prefix = rapid.SampledFrom(nearPrefixes).Draw(t, "near")
		case 2:
			r.Prefix = ""
		case 3:
			if len(c.Extras) > 0 {
				r.Prefix = strings.TrimSuffix(rapid.SampledFrom(c.Extras).Draw(t, "ex"), "/")
				break
			}
			fallthrough
		default:
			r.Prefix = prefixOf(rapid.SampledFrom(c.Patterns).Draw(t, "pfx"))
		}
		switch r.Proto {
		case "http":
			r.Verb = rapid.SampledFrom([]string{"GET", "GET", "POST", "PATCH", "DELETE", "HEAD"}).Draw(t, "verb")
			r.MuxPath = rapid.SampledFrom(muxPaths).Draw(t, "mp")
			r.Query = rapid.SampledFrom([]string{"", "", "other=1", "nope=1", "i32=5&tags=a&tags=b"}).Draw(t, "q")
			if r.Verb == "POST" || r.Verb == "PATCH" {
				r.Body = rapid.SampledFrom([]string{"", `{"other":"o"}`, `{"name":"n2","n":3}`, `{bad`}).Draw(t, "body")
			}
		case "twirp":
			r.MuxPath = rapid.SampledFrom([]string{"/rt.Svc0/Mth", "/rt.Svc1/Mth", "/rt.Svc9/Nope"}).Draw(t, "mp")
			r.Body = rapid.SampledFrom([]string{`{"name":"tw"}`, `{}`, `{bad`}).Draw(t, "body")
		default:
			r.MuxPath = rapid.SampledFrom([]string{"/rt.Svc0/Mth", "/rt.Svc1/Mth", "/rt.Svc9/Nope"}).Draw(t, "mp")
			r.Body = rapid.SampledFrom([]string{"g1", "", "längeres"}).Draw(t, "gname")
		}
		// exclude stdlib redirects: bare prefix without trailing slash
		if r.MuxPath == "" {
			r.MuxPath = "/v1/abc"
		}
		c.Reqs = append(c.Reqs, r)
	}
	return c
}

func TestProp(t *testing.T) {
	rapid.Check(t, func(t *rapid.T) {
		c := genCase(t)
		vs, in := Check(c)
		key := ""
		if in.served200 > 0 || in.nearMiss > 0 || in.nested > 0 {
			var protos []string
			for _, r := range c.Reqs {
				protos = append(protos, r.Proto+":"+r.Prefix)
			}
			key = strings.Join(c.Patterns, ",") + "|" + strings.Join(c.Extras, ",") + "|" + strings.Join(protos, ",")
		}
		cl := []string{fmt.Sprintf("patterns=%d", len(c.Patterns))}
		if in.served200 > 0 {
			cl = append(cl, "prefixed-200")
		}
		if in.nearMiss > 0 {
			cl = append(cl, "outside-prefix")
		}
		if in.nested > 0 {
			cl = append(cl, "nested-prefix")
		}
		if len(c.Extras) > 0 {
			cl = append(cl, "extras")
		}
		if in.wired > 0 {
			cl = append(cl, "compared-on-the-wire")
			evid.Count("requests-compared-on-the-wire", int64(in.wired))
		}
		for _, r := range c.Reqs {
			evid.Class("proto=" + r.Proto)
		}
		evid.Eval(key, cl...)
		evid.Sample("case", c)
		evid.Report(t, prop, c, vs)
	})
}

func TestReplay(t *testing.T) {
	path := os.Getenv("VERIF_REPLAY")
	if path == "" {
		t.Skip("VERIF_REPLAY not set")
	}
	var c Case
	if err := evid.LoadReplay(path, &c); err != nil {
		t.Fatal(err)
	}
	vs, _ := Check(c)
	evid.Report(t, prop, c, vs)
}

var _ = ref.Lit

func protoValue(s string) protoreflect.Value { return protoreflect.ValueOfString(s) }
