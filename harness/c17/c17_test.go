// C17 — stream codec framing is fragmentation-invariant and limit-safe.
package c17

import (
	"bytes"
	"encoding/json"
	"fmt"
	"io"
	"math"
	"os"
	"runtime/debug"
	"strconv"
	"strings"
	"testing"

	"google.golang.org/protobuf/encoding/protowire"
	"larking.io/larking"
	"pgregory.net/rapid"

	"verif/drive"
	"verif/evid"
)

const prop = "C17"

func TestMain(m *testing.M) {
	code := m.Run()
	evid.Flush()
	os.Exit(code)
}

// Case is one write-then-read experiment.
type Case struct {
	Codec       string   `json:"codec"` // proto | json | body
	Msgs        [][]byte `json:"msgs"`  // proto/json: messages; body: Msgs[0] is the upload
	Raw         []byte   `json:"raw"`   // hand-made stream (proto prefixes); Msgs ignored when set
	Chunks      []int    `json:"chunks"`
	EOFWithLast bool     `json:"eof_with_last"`
	InitCap     int      `json:"init_cap"`
	CarryCap    int      `json:"carry_cap"` // capacity of the buffer the carry-over is copied into
	Limit       int      `json:"limit"`
	TruncateAt  int      `json:"truncate_at"` // -1 = no truncation
	TermErr     string   `json:"term_err"`    // terminal reader error: "" = io.EOF, "unexpected" = io.ErrUnexpectedEOF, "custom"
}

var errCustom = fmt.Errorf("injected reader failure")

func codecOf(name string) larking.StreamCodec {
	switch name {
	case "proto":
		return larking.CodecProto{}
	case "json":
		return larking.CodecJSON{}
	case "body":
		return larking.VerifHTTPBodyCodec()
	}
	panic("codec " + name)
}

type callResult struct {
	dst   []byte
	n     int
	err   error
	panic any
	stack string
}

func readNext(c larking.StreamCodec, buf []byte, r io.Reader, limit int) (res callResult) {
	defer func() {
		if p := recover(); p != nil {
			res.panic = p
			res.stack = string(debug.Stack())
		}
	}()
	res.dst, res.n, res.err = c.ReadNext(buf, r, limit)
	return
}

type info struct {
	splitInside bool
	carry       bool
	nearLimit   bool
	msgs        int
}

// Check writes the messages, reads them back under the script and applies
// the oracle.
func Check(c Case) ([]evid.Violation, info) {
	var in info
	codec := codecOf(c.Codec)
	var stream bytes.Buffer
	var bounds []int // end offset of each message in the stream
	msgs := c.Msgs
	if c.Raw != nil {
		stream.Write(c.Raw)
		msgs = nil
	} else if c.Codec == "body" {
		stream.Write(c.Msgs[0])
	} else {
		for _, m := range msgs {
			if _, err := codec.WriteNext(&stream, m); err != nil {
				panic(err)
			}
			bounds = append(bounds, stream.Len())
		}
	}
	full := stream.Bytes()
	data := full
	if c.TruncateAt >= 0 && c.TruncateAt < len(full) {
		data = full[:c.TruncateAt]
	}
	rd := &drive.ScriptReader{Data: data, Chunks: append([]int{}, c.Chunks...), EOFWithLast: c.EOFWithLast}
	switch c.TermErr {
	case "unexpected":
		rd.Err = io.ErrUnexpectedEOF
	case "custom":
		rd.Err = errCustom
	}
	// does the script split inside a message / prefix?
	off := 0
	for _, ch := range c.Chunks {
		off += ch
		inside := off < len(data)
		for _, b := range bounds {
			if off == b {
				inside = false
			}
		}
		if inside && off > 0 {
			in.splitInside = true
		}
	}
	limit := c.Limit
	var vs []evid.Violation
	fail := func(clause, sig, f string, a ...any) ([]evid.Violation, info) {
		return append(vs, evid.V(clause, c.Codec+":"+sig, f, a...)), in
	}

	buf := make([]byte, 0, c.InitCap)
	consumed := 0
	var got [][]byte
	var termErr error
	maxCalls := len(msgs) + len(data) + 4
	calls := 0
	for {
		calls++
		if calls > maxCalls {
			return fail("no-progress", "no-progress", "ReadNext called %d times on a %d-byte stream without terminating", calls, len(data))
		}
		if len(buf) > 0 {
			in.carry = true
		}
		readsBefore := rd.Reads
		res := readNext(codec, buf, rd, limit)
		if res.panic != nil {
			return fail("panic", "panic@"+drive.TopFrame(res.stack), "ReadNext panicked: %v (case %s)", res.panic, brief(c))
		}
		if rd.Reads-readsBefore > len(data)+8 {
			return fail("spin", "spin", "one ReadNext call issued %d Reads", rd.Reads-readsBefore)
		}
		if res.n < 0 || res.n > len(res.dst) {
			return fail("bounds", "n-out-of-range", "n=%d len(dst)=%d err=%v", res.n, len(res.dst), res.err)
		}
		if res.err != nil && !(res.err == io.EOF && res.n > 0) {
			if res.n != 0 {
				return fail("error-with-message", "error-with-message", "err=%v but n=%d", res.err, res.n)
			}
			termErr = res.err
			break
		}
		msg := append([]byte{}, res.dst[:res.n]...)
		got = append(got, msg)
		in.msgs++
		// remainder invariant
		switch c.Codec {
		case "proto":
			consumed += protowire.SizeVarint(uint64(res.n)) + res.n
		default:
			consumed += res.n
		}
		if c.Raw == nil {
			rest := append(append([]byte{}, res.dst[res.n:]...), rd.Remaining()...)
			if consumed > len(data) || !bytes.Equal(rest, data[consumed:]) {
				return fail("remainder", "remainder", "after message %d (n=%d): dst[n:]+unread = %q, want stream[%d:] = %q", len(got)-1, res.n, trunc(rest), consumed, trunc(data[min(consumed, len(data)):]))
			}
		}
		if res.err == io.EOF {
			termErr = io.EOF
			break
		}
		cc := c.CarryCap
		if cc < len(res.dst)-res.n {
			cc = len(res.dst) - res.n
		}
		buf = append(make([]byte, 0, cc), res.dst[res.n:]...)
	}

	if c.TermErr != "" && termErr == io.EOF {
		return fail("reader-error", "reader-error-reported-as-eof", "the reader failed with %v but ReadNext reported io.EOF (%s)", rd.Err, brief(c))
	}
	// ---- sequence oracle ----
	if c.Raw != nil {
		// hand-made prefix: the declared size decides.
		size, vn := protowire.ConsumeVarint(c.Raw)
		switch {
		case vn < 0:
			if len(got) != 0 {
				return fail("absurd-prefix", "invalid-varint-accepted", "invalid varint prefix %x produced a message", c.Raw)
			}
		case (limit > 0 && size > uint64(limit)) || size > uint64(len(c.Raw)-vn):
			if len(got) != 0 {
				return fail("over-limit", "oversize-prefix-accepted", "prefix declares %d bytes (limit %d, available %d) but ReadNext returned a %d-byte message", size, limit, len(c.Raw)-vn, len(got[0]))
			}
		default:
			if len(got) == 0 || !bytes.Equal(got[0], c.Raw[vn:vn+int(size)]) {
				return fail("sequence", "valid-prefix-refused", "prefix %x declares %d bytes within limit %d but got %d messages err=%v", c.Raw[:vn], size, limit, len(got), termErr)
			}
		}
		return vs, in
	}
	if c.Codec == "body" {
		var cat []byte
		for i, g := range got {
			if len(g) > limit {
				return fail("over-limit", "chunk-over-limit", "chunk %d has %d bytes, limit %d", i, len(g), limit)
			}
			if len(g) == 0 && !(len(got) == 1 && len(data) == 0) {
				return fail("sequence", "empty-chunk", "empty chunk %d of %d for a %d-byte upload (limit %d)", i, len(got), len(data), limit)
			}
			cat = append(cat, g...)
		}
		if c.TermErr != "" {
			// a failing reader: complete chunks so far, then the error
			if !bytes.HasPrefix(data, cat) {
				return fail("sequence", "bytes-differ", "chunks are not a prefix of the upload")
			}
			return vs, in
		}
		if !bytes.Equal(cat, data) {
			return fail("sequence", "bytes-lost", "upload of %d bytes (limit %d, %s) read back as %d bytes in %d chunks; err=%v", len(data), limit, rd, len(cat), len(got), termErr)
		}
		if len(data)%max(limit, 1) <= 1 || (limit-len(data)%limit) <= 1 {
			in.nearLimit = true
		}
		return vs, in
	}
	// expected prefix of messages
	wantN := 0
	cutInside := false
	overLimit := -1
	for i, b := range bounds {
		if len(msgs[i]) > limit {
			overLimit = i
			break
		}
		if b <= len(data) {
			wantN = i + 1
		} else {
			break
		}
	}
	if overLimit < 0 && wantN < len(msgs) {
		prev := 0
		if wantN > 0 {
			prev = bounds[wantN-1]
		}
		cutInside = len(data) > prev
	}
	for i, m := range msgs {
		if d := len(m) - limit; d >= -1 && d <= 1 {
			in.nearLimit = true
		}
		_ = i
	}
	for i := 0; i < len(got) && i < wantN; i++ {
		if !bytes.Equal(got[i], msgs[i]) {
			return fail("sequence", "message-differs", "message %d: got %q want %q (%s)", i, trunc(got[i]), trunc(msgs[i]), brief(c))
		}
	}
	switch {
	case len(got) < wantN:
		return fail("sequence", "message-lost", "got %d messages, want %d; terminal error %v (%s)", len(got), wantN, termErr, brief(c))
	case len(got) > wantN && overLimit >= 0:
		return fail("over-limit", "over-limit-returned", "message %d has %d bytes > limit %d but %d messages were returned (last %d bytes)", overLimit, len(msgs[overLimit]), limit, len(got), len(got[len(got)-1]))
	case len(got) > wantN:
		return fail("sequence", "phantom-message", "got %d messages, want %d; extra %q (%s)", len(got), wantN, trunc(got[wantN]), brief(c))
	}
	if cutInside && termErr == io.EOF {
		return fail("truncation", "truncation-reported-as-eof", "stream cut inside message %d (at byte %d of %d) ended with io.EOF (%s)", wantN, len(data), len(full), brief(c))
	}
	return vs, in
}

func brief(c Case) string {
	var sizes []string
	for _, m := range c.Msgs {
		sizes = append(sizes, strconv.Itoa(len(m)))
	}
	return fmt.Sprintf("codec=%s sizes=[%s] chunks=%v eofWithLast=%v initCap=%d limit=%d truncateAt=%d termErr=%q", c.Codec, strings.Join(sizes, ","), c.Chunks, c.EOFWithLast, c.InitCap, c.Limit, c.TruncateAt, c.TermErr)
}

func trunc(b []byte) []byte {
	if len(b) > 80 {
		return b[:80]
	}
	return b
}

// ---------------------------------------------------------------------------
// generators

var sizePool = []int{0, 1, 2, 3, 5, 63, 64, 65, 127, 128, 129, 300}

func genJSONValue(t *rapid.T, depth int) any {
	k := rapid.IntRange(0, 6).Draw(t, "jv")
	if depth > 2 && k >= 5 {
		k = 0
	}
	switch k {
	case 0:
		return rapid.SampledFrom([]string{"", "a", "{", "}", "}{", "\"", "\\", "\\\"", "}\\\"{", "é}", "日本{\"", "a\\", "\\\\", "</x>", " ", "\n\t"}).Draw(t, "js")
	case 1:
		return rapid.StringN(0, 12, 48).Draw(t, "jsr")
	case 2:
		return rapid.Float64Range(-1e6, 1e6).Draw(t, "jn")
	case 3:
		return rapid.Bool().Draw(t, "jb")
	case 4:
		return nil
	case 5:
		return genJSONObject(t, depth+1)
	default:
		n := rapid.IntRange(0, 3).Draw(t, "jan")
		arr := []any{}
		for i := 0; i < n; i++ {
			arr = append(arr, genJSONValue(t, depth+1))
		}
		return arr
	}
}

func genJSONObject(t *rapid.T, depth int) map[string]any {
	n := rapid.IntRange(0, 4).Draw(t, "jon")
	o := map[string]any{}
	for i := 0; i < n; i++ {
		k := rapid.SampledFrom([]string{"a", "b", "k{", "k}", "q\"", "x\\", "é"}).Draw(t, "jk")
		o[k] = genJSONValue(t, depth)
	}
	return o
}

func genMsg(t *rapid.T, codec string) []byte {
	if codec == "json" {
		b, err := json.Marshal(genJSONObject(t, 0))
		if err != nil {
			panic(err)
		}
		if rapid.IntRange(0, 4).Draw(t, "indent") == 0 {
			var out bytes.Buffer
			json.Indent(&out, b, "", " ")
			return bytes.TrimSpace(out.Bytes())
		}
		return b
	}
	var n int
	if rapid.Bool().Draw(t, "poolsize") {
		n = rapid.SampledFrom(sizePool).Draw(t, "size")
	} else {
		n = rapid.IntRange(0, 40).Draw(t, "sizeR")
	}
	if rapid.IntRange(0, 40).Draw(t, "huge") == 0 {
		n = rapid.SampledFrom([]int{16383, 16384, 16385}).Draw(t, "sizeH")
	}
	b := make([]byte, n)
	fill := rapid.Byte().Draw(t, "fill")
	for i := range b {
		b[i] = fill + byte(i*7)
	}
	return b
}

func genChunks(t *rapid.T, total int) []int {
	if total == 0 {
		return nil
	}
	switch rapid.IntRange(0, 4).Draw(t, "chunkStyle") {
	case 0:
		return nil // whatever the codec asks for
	case 1: // byte by byte
		out := make([]int, total)
		for i := range out {
			out[i] = 1
		}
		return out
	}
	n := rapid.IntRange(1, 8).Draw(t, "nchunks")
	var out []int
	for i := 0; i < n; i++ {
		c := rapid.IntRange(0, 1+total/2).Draw(t, "chunk")
		if c == 0 && rapid.IntRange(0, 3).Draw(t, "zero") != 0 {
			c = 1
		}
		out = append(out, c)
	}
	return out
}

func genCase(t *rapid.T) Case {
	c := Case{TruncateAt: -1}
	c.Codec = rapid.SampledFrom([]string{"proto", "proto", "json", "json", "body"}).Draw(t, "codec")
	c.InitCap = rapid.SampledFrom([]int{0, 1, 5, 64, 1024, 1500, 2048, 3000, 4096}).Draw(t, "initCap")
	c.CarryCap = rapid.SampledFrom([]int{0, 1, 5, 64, 1024, 2048, 4096}).Draw(t, "carryCap")
	total := 0
	if c.Codec == "body" {
		c.Limit = rapid.SampledFrom([]int{1, 2, 7, 8, 64, 256}).Draw(t, "blimit")
		k := rapid.IntRange(0, 5).Draw(t, "mult")
		n := k*c.Limit + rapid.IntRange(-1, 1).Draw(t, "delta")
		if n < 0 {
			n = 0
		}
		if rapid.IntRange(0, 5).Draw(t, "free") == 0 {
			n = rapid.IntRange(0, 3*c.Limit+2).Draw(t, "nfree")
		}
		b := make([]byte, n)
		for i := range b {
			b[i] = byte(i*13 + 5)
		}
		c.Msgs = [][]byte{b}
		total = n
	} else if c.Codec == "proto" && rapid.IntRange(0, 7).Draw(t, "rawprefix") == 0 {
		// hand-made prefix
		size := rapid.SampledFrom([]uint64{0, 1, 127, 128, 300, 1 << 31, 1<<31 - 1, 1 << 32, 1 << 62, 1 << 63, 1<<63 - 1, math.MaxUint64, 1<<63 + 5}).Draw(t, "psize")
		var p []byte
		switch rapid.IntRange(0, 3).Draw(t, "pform") {
		case 0, 1:
			p = protowire.AppendVarint(nil, size)
		case 2: // overlong encoding
			p = protowire.AppendVarint(nil, size)
			if len(p) < 10 {
				p[len(p)-1] |= 0x80
				for len(p) < 9 {
					p = append(p, 0x80)
				}
				p = append(p, 0x00)
			}
		case 3: // 11 continuation bytes: invalid
			p = bytes.Repeat([]byte{0xff}, rapid.IntRange(10, 12).Draw(t, "pff"))
		}
		payload := rapid.IntRange(0, 300).Draw(t, "ppayload")
		c.Raw = append(p, bytes.Repeat([]byte{0xab}, payload)...)
		c.Limit = rapid.SampledFrom([]int{1, 64, 299, 300, 301, 4 << 20, 8 << 20}).Draw(t, "plimit") // no larger: the codec allocates the declared size up front
		total = len(c.Raw)
	} else {
		n := rapid.IntRange(0, 6).Draw(t, "nmsgs")
		maxLen := 0
		for i := 0; i < n; i++ {
			m := genMsg(t, c.Codec)
			if c.Codec == "proto" && c.InitCap >= 64 && rapid.IntRange(0, 2).Draw(t, "relCap") == 0 {
				// a size placed relative to the buffer the caller hands in (the buffer must grow by a
				// factor between 1 and 2, where the growth policy changes its step)
				k := c.InitCap
				n := rapid.SampledFrom([]int{k - 1, k, k + 1, k + k/4 - 1, k + k/4, k + k/4 + 1, k + k/2, 2*k - 1, 2 * k, 2*k + 1, 2*k + k/4 + 1}).Draw(t, "relSize")
				m = make([]byte, n)
				for j := range m {
					m[j] = byte(j*11 + i)
				}
			}
			c.Msgs = append(c.Msgs, m)
			total += len(m) + 3
			if len(m) > maxLen {
				maxLen = len(m)
			}
		}
		switch rapid.IntRange(0, 5).Draw(t, "limitKind") {
		case 0:
			c.Limit = 4 << 20
		case 1:
			c.Limit = maxLen + 1
		case 2:
			c.Limit = maxLen
		case 3:
			if maxLen > 1 {
				c.Limit = maxLen - 1
			} else {
				c.Limit = 1
			}
		default:
			if n > 0 {
				c.Limit = len(c.Msgs[rapid.IntRange(0, n-1).Draw(t, "limMsg")]) + rapid.IntRange(-1, 1).Draw(t, "limDelta")
			}
		}
		if c.Limit < 1 {
			c.Limit = 1
		}
		if n > 0 && rapid.IntRange(0, 3).Draw(t, "truncate") == 0 {
			c.TruncateAt = rapid.IntRange(0, total).Draw(t, "truncAt")
		}
	}
	c.Chunks = genChunks(t, total)
	c.EOFWithLast = rapid.Bool().Draw(t, "eofWithLast")
	c.TermErr = rapid.SampledFrom([]string{"", "", "", "", "unexpected", "custom"}).Draw(t, "termErr")
	return c
}

func classify(c Case, in info) (string, []string) {
	cl := []string{"codec=" + c.Codec}
	if c.Raw != nil {
		cl = append(cl, "raw-prefix")
	}
	if in.splitInside {
		cl = append(cl, "split-inside")
	}
	if in.carry {
		cl = append(cl, "carry-over")
	}
	if in.nearLimit {
		cl = append(cl, "near-limit")
	}
	if c.TruncateAt >= 0 {
		cl = append(cl, "truncated")
	}
	if c.EOFWithLast {
		cl = append(cl, "eof-with-last")
	}
	if c.TermErr != "" {
		cl = append(cl, "reader-fails")
	}
	key := ""
	nontriv := c.Raw != nil || in.nearLimit || c.TruncateAt >= 0 || (len(c.Msgs) >= 2 && in.splitInside) || in.carry
	if nontriv {
		var sizes []string
		for _, m := range c.Msgs {
			sizes = append(sizes, strconv.Itoa(len(m)))
		}
		key = fmt.Sprintf("%s|%s|%v|%v|%d|%d|%d|%x", c.Codec, strings.Join(sizes, ","), c.Chunks, c.EOFWithLast, c.InitCap, c.Limit, c.TruncateAt, trunc(c.Raw))
	}
	return key, cl
}

func TestProp(t *testing.T) {
	rapid.Check(t, func(t *rapid.T) {
		c := genCase(t)
		vs, in := Check(c)
		key, cl := classify(c, in)
		evid.Eval(key, cl...)
		evid.Sample(c.Codec, sampleOf(c))
		evid.Report(t, prop, c, vs)
	})
}

func sampleOf(c Case) any {
	return map[string]any{"brief": brief(c), "raw": fmt.Sprintf("%x", trunc(c.Raw))}
}

// TestPropExhaustive enumerates every composition of short streams.
func TestPropExhaustive(t *testing.T) {
	maxLen := 10
	if os.Getenv("VERIF_TIER") == "thorough" {
		maxLen = 14
	}
	shard, _ := strconv.Atoi(os.Getenv("VERIF_SHARD"))
	nshard, _ := strconv.Atoi(os.Getenv("VERIF_NSHARD"))
	if nshard == 0 {
		nshard = 1
	}
	streams := []Case{
		{Codec: "proto", Msgs: [][]byte{{1, 2, 3}, {}, {9}, {4, 5}}},
		{Codec: "proto", Msgs: [][]byte{{}, {}, {7, 7, 7, 7, 7}}},
		{Codec: "json", Msgs: [][]byte{[]byte(`{}`), []byte(`{"a":1}`)}},
		{Codec: "json", Msgs: [][]byte{[]byte(`{"}":"{"}`)}}, {Codec: "json", Msgs: [][]byte{[]byte(`{"}":1}`), []byte(`{}`)}},
		{Codec: "json", Msgs: [][]byte{[]byte(`{"":"\"}"}`)}},
		{Codec: "body", Msgs: [][]byte{[]byte("0123456789")}},
		{Codec: "body", Msgs: [][]byte{[]byte("01234567")}},
	}
	idx := 0
	for _, base := range streams {
		total := 0
		for _, m := range base.Msgs {
			total += len(m)
			if base.Codec == "proto" {
				total++
			}
		}
		if total > maxLen {
			t.Fatalf("stream too long: %d", total)
		}
		limits := []int{64}
		if base.Codec == "body" {
			limits = []int{1, 3, 4, 5, 8, 10, 64}
		}
		for _, limit := range limits {
			for mask := 0; mask < 1<<(max(total, 1)-1); mask++ {
				idx++
				if idx%nshard != shard {
					continue
				}
				var chunks []int
				run := 1
				for i := 0; i < total-1; i++ {
					if mask&(1<<i) != 0 {
						chunks = append(chunks, run)
						run = 1
					} else {
						run++
					}
				}
				chunks = append(chunks, run)
				for _, eof := range []bool{false, true} {
					for _, ic := range []int{0, 1, 64} {
						c := base
						c.Chunks, c.EOFWithLast, c.InitCap, c.CarryCap, c.Limit, c.TruncateAt = chunks, eof, ic, ic, limit, -1
						vs, in := Check(c)
						key, cl := classify(c, in)
						if key == "" {
							key = "x|" + brief(c)
						}
						evid.Eval(key, append(cl, "exhaustive")...)
						if len(vs) > 0 {
							evid.Report(t, prop, c, vs)
						}
					}
				}
			}
		}
	}
	evid.SetExhaustive(fmt.Sprintf("all compositions x {EOF with/after last} x initial capacity {0,1,64} of %d fixed streams of <= %d bytes", len(streams), maxLen))
}

// FuzzCodec is the native coverage-guided target (thorough tier): the same stream generator driven by the fuzzer's bytes.
func FuzzCodec(f *testing.F) {
	f.Fuzz(rapid.MakeFuzz(func(t *rapid.T) {
		c := genCase(t)
		vs, _ := Check(c)
		if len(vs) > 0 && !evid.IsKnown(prop, vs[0].Sig) {
			t.Fatalf("property %s violated: %v\ncase: %+v", prop, vs[0], c)
		}
	}))
}

func TestReplay(t *testing.T) {
	path := os.Getenv("VERIF_REPLAY")
	if path == "" {
		t.Skip("VERIF_REPLAY not set")
	}
	var c Case
	if err := evid.LoadReplay(path, &c); err != nil {
		t.Fatal(err)
	}
	vs, _ := Check(c)
	evid.Report(t, prop, c, vs)
}
