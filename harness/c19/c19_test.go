// C19 — service-config rules bind exactly the selected methods; healthz.
package c19

import (
	"bytes"
	"context"
	"fmt"
	"io"
	"net"
	"sync"
	"sync/atomic"
	"time"

	"github.com/gobwas/ws"
	"net/http"
	"net/url"
	"os"
	"strings"
	"testing"

	"google.golang.org/genproto/googleapis/api/annotations"
	"google.golang.org/genproto/googleapis/api/serviceconfig"
	"google.golang.org/grpc"
	"google.golang.org/grpc/credentials/insecure"
	grpchealth "google.golang.org/grpc/health"
	healthpb "google.golang.org/grpc/health/grpc_health_v1"
	"google.golang.org/grpc/reflection"
	"google.golang.org/protobuf/encoding/protojson"
	"google.golang.org/protobuf/proto"
	"google.golang.org/protobuf/types/descriptorpb"
	"google.golang.org/protobuf/types/dynamicpb"
	"larking.io/health"
	"larking.io/larking"
	"pgregory.net/rapid"

	"verif/drive"
	"verif/dyn"
	"verif/evid"
	"verif/ref"
	"verif/route"
)

const prop = "C19"

func TestMain(m *testing.M) {
	code := m.Run()
	evid.Flush()
	os.Exit(code)
}

// ---------------------------------------------------------------------------
// (1) selectors

var pkgs = []string{"pa", "pa.qb", "pab"}
var svcNames = []string{"Svc", "SvcX"}
var mthNames = []string{"Get", "GetAll", "List"}

var selWorld = func() *dyn.World {
	var fdps []*descriptorpb.FileDescriptorProto
	for _, p := range pkgs {
		var svcs []*descriptorpb.ServiceDescriptorProto
		for _, s := range svcNames {
			var ms []dyn.MethodSpec
			for _, m := range mthNames {
				ms = append(ms, dyn.MethodSpec{Name: m, In: "." + p + ".Req", Out: "." + p + ".Req"})
			}
			svcs = append(svcs, dyn.Svc(s, ms...))
		}
		fdps = append(fdps, dyn.File(strings.ReplaceAll(p, ".", "_")+".proto", p,
			[]*descriptorpb.DescriptorProto{dyn.Msg("Req", dyn.F("name", 1, dyn.String), dyn.F("parent", 2, dyn.String))}, nil, svcs))
	}
	w, err := dyn.NewWorld(fdps...)
	if err != nil {
		panic(err)
	}
	return w
}()

func allMethods() []string {
	var out []string
	for _, p := range pkgs {
		for _, s := range svcNames {
			for _, m := range mthNames {
				out = append(out, p+"."+s+"."+m)
			}
		}
	}
	return out
}

// covers is the reference selector relation.
func covers(sel, m string) bool {
	if sel == m || sel == "*" {
		return true
	}
	if strings.HasSuffix(sel, ".*") {
		pre := strings.TrimSuffix(sel, "*") // keeps the trailing dot
		return strings.HasPrefix(m, pre) && len(m) > len(pre)
	}
	return false
}

var selectorPool = func() []string {
	out := []string{"*", "pa.*", "pa.qb.*", "pab.*", "zz.*", "pa.q.*", "p.*", "pa.Svc.*", "pa.SvcX.*", "pa.qb.Svc.*", "pab.Svc.*",
		"pa.Svc", "pa.SvcX", "pa.qb.Svc", "pa", "pab", "pa.qb",
		"pa.Svc.Get.*", "pa.Svc.GetAll.*", "pab.SvcX.List.*", "pa.Svc.Ge", "pa.Sv.*", "zz.Svc.Get"}
	out = append(out, allMethods()...)
	return out
}()

type SelCase struct {
	Selectors []string `json:"selectors"` // rule i has template /r<i>x/{name}
}

func CheckSel(c SelCase) []evid.Violation {
	var vs []evid.Violation
	var rules []*annotations.HttpRule
	for i, s := range c.Selectors {
		rules = append(rules, &annotations.HttpRule{Selector: s, Pattern: &annotations.HttpRule_Get{Get: fmt.Sprintf("/r%dx/{name}", i)}})
	}
	cfg := &serviceconfig.Service{Http: &annotations.Http{Rules: rules}}
	for _, m := range allMethods() {
		i := strings.LastIndex(m, ".")
		svc, mth := m[:i], m[i+1:]
		mux, err := larking.NewMux(larking.FilesOption(selWorld.Files), larking.ServiceConfigOption(cfg))
		if err != nil {
			panic(err)
		}
		var called []string
		full := selWorld.ServiceDesc(svc, func(ctx context.Context, fm string, req *dynamicpb.Message) (proto.Message, error) {
			called = append(called, fm)
			return req, nil
		}, nil)
		// register only method m of its service
		sd := &grpc.ServiceDesc{ServiceName: full.ServiceName, HandlerType: full.HandlerType, Metadata: full.Metadata}
		for _, md := range full.Methods {
			if md.MethodName == mth {
				sd.Methods = append(sd.Methods, md)
			}
		}
		var rerr error
		func() {
			defer func() {
				if p := recover(); p != nil {
					rerr = fmt.Errorf("panic: %v", p)
				}
			}()
			rerr = mux.VerifRegisterService(sd, nil)
		}()
		if rerr != nil {
			vs = append(vs, evid.V("config-registration-failed", "", "selectors %v: registering %s failed: %v", c.Selectors, m, rerr))
			continue
		}
		want := "/" + svc + "/" + mth
		for ri, s := range c.Selectors {
			called = nil
			res := drive.Serve(mux, drive.Request("GET", fmt.Sprintf("/r%dx/abc", ri), "", nil, nil, 0))
			bound := len(called) == 1 && called[0] == want
			cov := covers(s, m)
			switch {
			case res.Panic != nil:
				vs = append(vs, evid.V("panic", res.PanicSig(), "panic: %v", res.Panic))
			case cov && !bound:
				vs = append(vs, evid.V("covered-not-bound", "covered-not-bound:"+selShape(s), "selector %q covers %s but GET /r%dx/abc -> %d (called %v)", s, m, ri, res.Rec.Code, called))
			case !cov && bound:
				vs = append(vs, evid.V("bound-not-covered", "bound-not-covered:"+selShape(s), "selector %q does not cover %s but its rule is bound to it", s, m))
			}
		}
	}
	return vs
}

func selShape(s string) string {
	switch {
	case s == "*":
		return "star"
	case strings.HasSuffix(s, ".*"):
		return fmt.Sprintf("wild-depth%d", strings.Count(s, "."))
	default:
		return fmt.Sprintf("exact-depth%d", strings.Count(s, ".")+1)
	}
}

func TestPropSelectors(t *testing.T) {
	rapid.Check(t, func(t *rapid.T) {
		n := rapid.IntRange(1, 6).Draw(t, "n")
		var c SelCase
		for i := 0; i < n; i++ {
			c.Selectors = append(c.Selectors, rapid.SampledFrom(selectorPool).Draw(t, "sel"))
		}
		vs := CheckSel(c)
		wild, near := false, false
		shapes := map[string]bool{}
		for _, s := range c.Selectors {
			shapes[selShape(s)] = true
			if strings.Contains(s, "*") {
				wild = true
			}
			covAny := false
			for _, m := range allMethods() {
				covAny = covAny || covers(s, m)
			}
			if !covAny {
				near = true
			}
		}
		var cl []string
		for k := range shapes {
			cl = append(cl, "sel:"+k)
		}
		key := ""
		if wild || near {
			key = strings.Join(c.Selectors, ",")
		}
		if near {
			cl = append(cl, "non-covering-selector")
		}
		evid.Eval(key, cl...)
		evid.Sample("selectors", c)
		evid.Report(t, prop, map[string]any{"kind": "selectors", "sel": c}, vs)
	})
}

// ---------------------------------------------------------------------------
// (2) annotation equivalence

type EqReq struct {
	Verb  string `json:"verb"`
	Path  string `json:"path"`
	Query string `json:"query"`
	Body  string `json:"body"`
}

type EqCase struct {
	Rule route.MethodRules `json:"rule"`
	Reqs []EqReq           `json:"reqs"`
	// Annot: the selected method additionally carries this annotation of its own, which occupies
	// the same verb and path position as Rule.Bindings[0] but maps differently (other captured
	// field, body or response_body). The configured rule must still be bound and behave as written.
	Annot *route.Binding `json:"annot,omitempty"`
	// Dup: the config selects the method twice - first with a rule that only has the primary
	// binding, then with the full rule (same primary plus additional bindings), as happens when a
	// wildcard rule and an exact rule, or AddHealthz and a user rule, restate one pattern.
	Dup bool `json:"dup,omitempty"`
}

type eqOutcome struct {
	status int
	ctype  string
	body   string
	method string
	msg    string
	panic  string
}

func doEq(b *route.Built, r EqReq) eqOutcome {
	b.Rec.Take()
	hdr := http.Header{}
	var req *http.Request
	if r.Body != "" {
		hdr.Set("Content-Type", "application/json")
		req = drive.Request(r.Verb, r.Path, r.Query, hdr, bytes.NewReader([]byte(r.Body)), int64(len(r.Body)))
	} else {
		req = drive.Request(r.Verb, r.Path, r.Query, hdr, nil, 0)
	}
	res := drive.Serve(b.Mux, req)
	o := eqOutcome{status: res.Rec.Code, ctype: res.Hdr.Get("Content-Type"), body: res.Rec.Body.String()}
	if res.Panic != nil {
		o.panic = res.PanicSig()
	}
	if calls := b.Rec.Take(); len(calls) > 0 {
		o.method = calls[0].Method
		mb, _ := proto.MarshalOptions{Deterministic: true}.Marshal(calls[0].Msg)
		o.msg = string(mb)
	}
	return o
}

func CheckEq(c EqCase) ([]evid.Violation, int) {
	rs := route.RuleSet{c.Rule}
	a := route.Build(rs, nil) // annotation
	rule := proto.Clone(c.Rule.HTTPRule()).(*annotations.HttpRule)
	rule.Selector = "rt.Svc0.Mth"
	cfg := &serviceconfig.Service{Http: &annotations.Http{Rules: []*annotations.HttpRule{rule}}}
	if c.Dup {
		first := proto.Clone(rule).(*annotations.HttpRule)
		first.AdditionalBindings = nil
		cfg.Http.Rules = []*annotations.HttpRule{first, rule}
	}
	cfgWorld := route.World(rs, false)
	if c.Annot != nil {
		cfgWorld = route.World(route.RuleSet{{Bindings: []route.Binding{*c.Annot}}}, true)
	}
	b := route.BuildWorld(cfgWorld, 1, nil, larking.ServiceConfigOption(cfg))
	var vs []evid.Violation
	if a.Accepted[0] != b.Accepted[0] || a.Panic != nil || b.Panic != nil {
		vs = append(vs, evid.V("equivalence-registration", "", "rule %v: annotation accepted=%v (%s) config accepted=%v (%s)", c.Rule, a.Accepted[0], a.Errs[0], b.Accepted[0], b.Errs[0]))
		return vs, 0
	}
	dispatched := 0
	for _, r := range c.Reqs {
		oa, ob := doEq(a, r), doEq(b, r)
		if oa.method != "" {
			dispatched++
		}
		// protojson output is deliberately unstable in whitespace; compare decoded when JSON
		if oa.status != ob.status || oa.method != ob.method || oa.msg != ob.msg || oa.panic != ob.panic || oa.ctype != ob.ctype || !sameJSON(oa.body, ob.body) {
			vs = append(vs, evid.V("equivalence", "", "rule %v request %+v: annotation -> %+v ; config -> %+v", c.Rule, r, oa, ob))
		}
	}
	return vs, dispatched
}

func sameJSON(a, b string) bool {
	if a == b {
		return true
	}
	strip := func(s string) string { return strings.NewReplacer(" ", "", "\n", "", "\t", "").Replace(s) }
	return strip(a) == strip(b)
}

func TestPropEquiv(t *testing.T) {
	rapid.Check(t, func(t *rapid.T) {
		var c EqCase
		nb := rapid.IntRange(1, 2).Draw(t, "nb")
		for i := 0; i < nb; i++ {
			tm := route.GenTemplate(t, route.GenOpts{StarStarOnlyLast: true})
			c.Rule.Bindings = append(c.Rule.Bindings, route.Binding{
				Verb: rapid.SampledFrom([]string{"GET", "POST", "PUT", "PATCH", "DELETE", "search", "*"}).Draw(t, "verb"),
				Tmpl: tm.String(),
				Body: rapid.SampledFrom([]string{"", "*", "sub"}).Draw(t, "body"),
				Resp: rapid.SampledFrom([]string{"", "", "sub"}).Draw(t, "resp"),
			})
		}
		if rapid.IntRange(0, 3).Draw(t, "override") == 0 {
			a := c.Rule.Bindings[0]
			changed := false
			for _, f := range route.StringFields {
				if strings.Contains(a.Tmpl, "{"+f+"}") || strings.Contains(a.Tmpl, "{"+f+"=") {
					g := rapid.SampledFrom(route.StringFields).Draw(t, "ofield")
					if g != f && !strings.Contains(a.Tmpl, "{"+g+"}") && !strings.Contains(a.Tmpl, "{"+g+"=") {
						a.Tmpl = strings.Replace(strings.Replace(a.Tmpl, "{"+f+"}", "{"+g+"}", 1), "{"+f+"=", "{"+g+"=", 1)
						changed = true
					}
					break
				}
			}
			if nb := rapid.SampledFrom([]string{"", "*", "sub"}).Draw(t, "obody"); nb != a.Body {
				a.Body, changed = nb, true
			}
			if nr := rapid.SampledFrom([]string{"", "sub"}).Draw(t, "oresp"); nr != a.Resp {
				a.Resp, changed = nr, true
			}
			if changed {
				c.Annot = &a
			}
		}
		c.Dup = len(c.Rule.Bindings) > 1 && rapid.IntRange(0, 2).Draw(t, "dup") == 0
		hasVarOrBody := false
		for _, b := range c.Rule.Bindings {
			tm, _ := ref.ParseTemplate(b.Tmpl)
			hasVarOrBody = hasVarOrBody || len(tm.Vars()) > 0 || b.Body != ""
			n := rapid.IntRange(2, 4).Draw(t, "nreq")
			for j := 0; j < n; j++ {
				p, _ := route.Instantiate(t, tm, 3)
				verb := strings.ToUpper(b.Verb)
				if verb == "*" {
					verb = rapid.SampledFrom([]string{"GET", "POST"}).Draw(t, "rv")
				}
				r := EqReq{Verb: verb, Path: p}
				switch rapid.IntRange(0, 5).Draw(t, "variant") {
				case 0:
					r.Path += "/zz"
				case 1:
					r.Verb = "TRACE"
				case 2:
					r.Query = "other=" + url.QueryEscape(rapid.StringMatching(`[a-z &=]{0,6}`).Draw(t, "q")) + "&page_size=5"
				case 3:
					r.Query = "nope=1"
				}
				if b.Body != "" && rapid.Bool().Draw(t, "withBody") {
					if b.Body == "*" {
						r.Body = `{"other":"o","tags":["a","b"],"sub":{"n":3}}`
					} else {
						r.Body = `{"name":"sn","n":4}`
					}
					if rapid.IntRange(0, 5).Draw(t, "badBody") == 0 {
						r.Body = `{"bad":`
					}
				}
				c.Reqs = append(c.Reqs, r)
			}
		}
		c.Reqs = append(c.Reqs, EqReq{Verb: "POST", Path: "/rt.Svc0/Mth", Body: `{"name":"implicit"}`})
		vs, dispatched := CheckEq(c)
		key := ""
		if hasVarOrBody && dispatched > 0 {
			var shapes []string
			for _, b := range c.Rule.Bindings {
				tm, _ := ref.ParseTemplate(b.Tmpl)
				shapes = append(shapes, b.Verb+" "+tm.Shape()+" "+b.Body+" "+b.Resp)
			}
			key = "eq|" + strings.Join(shapes, ";")
		}
		if c.Dup {
			evid.Eval(key, "equivalence", "config-restates-primary-pattern")
		} else if c.Annot != nil {
			evid.Eval(key, "equivalence", "config-rule-overrides-own-annotation")
		} else {
			evid.Eval(key, "equivalence")
		}
		evid.Sample("equivalence", c)
		evid.Report(t, prop, map[string]any{"kind": "equiv", "eq": c}, vs)
	})
}

// ---------------------------------------------------------------------------
// (3) healthz

type HCase struct {
	Watch    bool     `json:"watch"` // also follow the first service over the documented WebSocket binding (Health.Watch)
	Services []string `json:"services"`
	Statuses []int32  `json:"statuses"`
	Queries  []string `json:"queries"`   // service names asked for (may be unknown); "\x00none" = no parameter
	Overall  int32    `json:"overall"`   // status set on "" (0 = leave default)
	Proxied  bool     `json:"proxied"`   // the health service lives on a backend reached through RegisterConn (discovered by reflection) instead of being registered on the mux itself
	UserRule int      `json:"user_rule"` // the config also holds a user rule of its own on Health.Check (get /livez): 1 = added before AddHealthz is called, 2 = after (0 = none)
}

func CheckHealth(c HCase) []evid.Violation {
	var vs []evid.Violation
	hs := health.NewServer()
	cfg := &serviceconfig.Service{}
	user := &annotations.HttpRule{Selector: "grpc.health.v1.Health.Check", Pattern: &annotations.HttpRule_Get{Get: "/livez"}}
	if c.UserRule == 1 {
		cfg.Http = &annotations.Http{Rules: []*annotations.HttpRule{user}}
	}
	health.AddHealthz(cfg)
	if c.UserRule == 2 {
		cfg.Http.Rules = append(cfg.Http.Rules, user)
	}
	mux, err := larking.NewMux(larking.ServiceConfigOption(cfg))
	if err != nil {
		panic(err)
	}
	if c.Proxied {
		be := healthBackend()
		be.cur.Store(hs)
		ctx, cancel := context.WithTimeout(context.Background(), 20*time.Second)
		err := mux.RegisterConn(ctx, be.cc)
		cancel()
		if err != nil {
			return []evid.Violation{evid.V("healthz-proxied", "register-conn", "RegisterConn of a backend serving grpc.health.v1.Health: %v", err)}
		}
	} else {
		healthpb.RegisterHealthServer(mux, hs)
	}
	model := map[string]healthpb.HealthCheckResponse_ServingStatus{"": healthpb.HealthCheckResponse_SERVING}
	if c.Overall != 0 {
		hs.SetServingStatus("", healthpb.HealthCheckResponse_ServingStatus(c.Overall))
		model[""] = healthpb.HealthCheckResponse_ServingStatus(c.Overall)
	}
	for i, s := range c.Services {
		st := healthpb.HealthCheckResponse_ServingStatus(c.Statuses[i])
		hs.SetServingStatus(s, st)
		model[s] = st
	}
	for _, q := range c.Queries {
		raw := ""
		name := ""
		if q != "\x00none" {
			raw = "service=" + url.QueryEscape(q)
			name = q
		}
		paths := []string{"/v1/healthz"}
		if c.UserRule != 0 {
			paths = append(paths, "/livez") // the user's own rule and AddHealthz's rule select the same method: both are bound
		}
		for _, path := range paths {
			res := drive.Serve(mux, drive.Request("GET", path, raw, nil, nil, 0))
			if res.Panic != nil {
				vs = append(vs, evid.V("panic", res.PanicSig(), "healthz panic: %v", res.Panic))
				continue
			}
			want, known := model[name]
			if !known {
				if res.Rec.Code != http.StatusNotFound {
					vs = append(vs, evid.V("healthz-unknown", "", "GET %s?%s for unknown service -> %d %s, want 404", path, raw, res.Rec.Code, res.Rec.Body.String()))
				}
				continue
			}
			var rsp healthpb.HealthCheckResponse
			if res.Rec.Code != 200 || protojson.Unmarshal(res.Rec.Body.Bytes(), &rsp) != nil || rsp.Status != want {
				vs = append(vs, evid.V("healthz-status", "", "GET %s?%s -> %d %s, want status %v (user rule mode %d)", path, raw, res.Rec.Code, res.Rec.Body.String(), want, c.UserRule))
			}
		}
	}
	if c.Watch {
		vs = append(vs, checkWatch(c, mux, hs, model)...)
	}
	return vs
}

// swapHealth is the health service of the process-wide backend; it answers from the health server of the
// case being checked.
type swapHealth struct {
	healthpb.UnimplementedHealthServer
	cur atomic.Pointer[grpchealth.Server]
	cc  *grpc.ClientConn
}

func (s *swapHealth) Check(ctx context.Context, r *healthpb.HealthCheckRequest) (*healthpb.HealthCheckResponse, error) {
	return s.cur.Load().Check(ctx, r)
}
func (s *swapHealth) Watch(r *healthpb.HealthCheckRequest, st healthpb.Health_WatchServer) error {
	return s.cur.Load().Watch(r, st)
}

var (
	hbOnce sync.Once
	hb     *swapHealth
)

// healthBackend starts (once) a real gRPC server with the health service and reflection.
func healthBackend() *swapHealth {
	hbOnce.Do(func() {
		hb = &swapHealth{}
		srv := grpc.NewServer()
		healthpb.RegisterHealthServer(srv, hb)
		reflection.Register(srv)
		ln, err := net.Listen("tcp", "127.0.0.1:0")
		if err != nil {
			panic(err)
		}
		go srv.Serve(ln)
		hb.cc, err = grpc.NewClient(ln.Addr().String(), grpc.WithTransportCredentials(insecure.NewCredentials()))
		if err != nil {
			panic(err)
		}
	})
	return hb
}

// checkWatch dials ws /v1/healthz?service=S (Health.Watch): the watcher must
// receive the current status and then every status set afterwards.
func checkWatch(c HCase, mux http.Handler, hs interface {
	SetServingStatus(string, healthpb.HealthCheckResponse_ServingStatus)
	Shutdown()
}, model map[string]healthpb.HealthCheckResponse_ServingStatus) []evid.Violation {
	defer hs.Shutdown() // ends the Watch handler
	svc := "late-svc"
	want := healthpb.HealthCheckResponse_SERVICE_UNKNOWN
	if len(c.Services) > 0 {
		svc = c.Services[0]
		want = model[svc] // a later duplicate wins
	}
	real := drive.Real()
	real.Use(mux)
	ctx, cancel := context.WithTimeout(context.Background(), 10*time.Second)
	defer cancel()
	conn, br, _, err := ws.Dial(ctx, "ws://"+real.Addr+"/v1/healthz?service="+url.QueryEscape(svc))
	if err != nil {
		return []evid.Violation{evid.V("healthz-watch", "watch-dial", "websocket /v1/healthz: %v", err)}
	}
	defer conn.Close()
	conn.SetDeadline(time.Now().Add(10 * time.Second))
	var rd io.Reader = conn
	if br != nil {
		rd = br
	}
	next := func() (healthpb.HealthCheckResponse_ServingStatus, string) {
		for {
			f, err := ws.ReadFrame(rd)
			if err != nil {
				return -1, "read: " + err.Error()
			}
			switch f.Header.OpCode {
			case ws.OpText:
				var rsp healthpb.HealthCheckResponse
				if err := protojson.Unmarshal(f.Payload, &rsp); err != nil {
					return -1, "not a HealthCheckResponse: " + string(f.Payload)
				}
				return rsp.Status, ""
			case ws.OpClose:
				code, reason := ws.ParseCloseFrameData(f.Payload)
				return -1, fmt.Sprintf("closed %d %q", code, reason)
			}
		}
	}
	seq := []healthpb.HealthCheckResponse_ServingStatus{want}
	for _, st := range []healthpb.HealthCheckResponse_ServingStatus{healthpb.HealthCheckResponse_NOT_SERVING, healthpb.HealthCheckResponse_SERVING} {
		if st == seq[len(seq)-1] {
			continue
		}
		seq = append(seq, st)
	}
	for i, w := range seq {
		if i > 0 {
			hs.SetServingStatus(svc, w)
		}
		got, problem := next()
		if problem != "" || got != w {
			return []evid.Violation{evid.V("healthz-watch", "watch-sequence", "websocket watcher of %q: update %d should be %v, got %v %s", svc, i, w, got, problem)}
		}
	}
	return nil
}

func TestPropHealthz(t *testing.T) {
	nameGen := rapid.OneOf(
		rapid.StringMatching(`[a-z]{1,4}(\.[A-Za-z]{1,5}){0,2}`),
		rapid.String(),
		rapid.SampledFrom([]string{"a b", "a&b=c", "ü/ß", "%41", "+", "grpc.health.v1.Health", "a\"b", "null"}),
	)
	rapid.Check(t, func(t *rapid.T) {
		var c HCase
		n := rapid.IntRange(0, 4).Draw(t, "n")
		for i := 0; i < n; i++ {
			s := nameGen.Filter(func(s string) bool { return s != "" && isValidUTF8(s) }).Draw(t, "svc")
			c.Services = append(c.Services, s)
			c.Statuses = append(c.Statuses, int32(rapid.IntRange(0, 3).Draw(t, "st")))
		}
		c.Overall = int32(rapid.IntRange(0, 2).Draw(t, "overall"))
		c.Watch = rapid.IntRange(0, 7).Draw(t, "watch") == 0
		c.UserRule = rapid.SampledFrom([]int{0, 0, 1, 2}).Draw(t, "userRule")
		c.Proxied = rapid.IntRange(0, 7).Draw(t, "proxied") == 0
		c.Queries = append(c.Queries, "\x00none")
		c.Queries = append(c.Queries, c.Services...)
		c.Queries = append(c.Queries, nameGen.Filter(func(s string) bool { return s != "" && isValidUTF8(s) }).Draw(t, "unknown"))
		vs := CheckHealth(c)
		key := ""
		if n > 0 {
			key = fmt.Sprintf("h|%v|%v|%d|%d|%v", c.Services, c.Statuses, c.Overall, c.UserRule, c.Proxied)
		}
		if c.Proxied {
			evid.Count("healthz-behind-a-connection", 1)
		}
		if c.Watch {
			evid.Eval(key, "healthz", "healthz-ws-watch")
		} else {
			evid.Eval(key, "healthz")
		}
		evid.Sample("healthz", c)
		evid.Report(t, prop, map[string]any{"kind": "healthz", "health": c}, vs)
	})
}

func isValidUTF8(s string) bool {
	return strings.ToValidUTF8(s, "�") == s && !strings.Contains(s, "�")
}

// ---------------------------------------------------------------------------

type replay struct {
	Kind   string  `json:"kind"`
	Sel    SelCase `json:"sel"`
	Eq     EqCase  `json:"eq"`
	Health HCase   `json:"health"`
}

func TestReplay(t *testing.T) {
	path := os.Getenv("VERIF_REPLAY")
	if path == "" {
		t.Skip("VERIF_REPLAY not set")
	}
	var c replay
	if err := evid.LoadReplay(path, &c); err != nil {
		t.Fatal(err)
	}
	var vs []evid.Violation
	switch c.Kind {
	case "selectors":
		vs = CheckSel(c.Sel)
	case "equiv":
		vs, _ = CheckEq(c.Eq)
	case "healthz":
		vs = CheckHealth(c.Health)
	default:
		t.Fatalf("unknown replay kind %q", c.Kind)
	}
	evid.Report(t, prop, c, vs)
}
