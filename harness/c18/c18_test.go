// C18 — interceptors and stats handlers see every RPC exactly once.
package c18

import (
	"bytes"
	"context"
	"fmt"
	"io"
	"net/http"
	"os"
	"sort"
	"strings"
	"sync"
	"sync/atomic"
	"testing"
	"time"

	"google.golang.org/genproto/googleapis/api/annotations"
	"google.golang.org/genproto/googleapis/api/httpbody"
	"google.golang.org/grpc"
	"google.golang.org/grpc/codes"
	"google.golang.org/grpc/metadata"
	"google.golang.org/grpc/stats"
	"google.golang.org/grpc/status"
	"google.golang.org/protobuf/encoding/protojson"
	"google.golang.org/protobuf/proto"
	"google.golang.org/protobuf/reflect/protoreflect"
	"google.golang.org/protobuf/types/dynamicpb"
	"larking.io/larking"
	"pgregory.net/rapid"

	"verif/drive"
	"verif/dyn"
	"verif/evid"
	"verif/uni"
)

const prop = "C18"

func TestMain(m *testing.M) {
	code := m.Run()
	evid.Flush()
	os.Exit(code)
}

type Case struct {
	Shape      string `json:"shape"`      // unary | client | server | bidi
	Transport  string `json:"transport"`  // http | httpget | grpc | grpcweb
	Sizes      []int  `json:"sizes"`      // encoded (protobuf) length of each request message
	Replies    int    `json:"replies"`    // replies the handler sends (streaming server side)
	FailAfter  int    `json:"fail_after"` // -1 = OK; k = error after k replies
	UnaryInt   bool   `json:"unary_int"`
	StreamInt  bool   `json:"stream_int"`
	Stats      bool   `json:"stats"`
	Behaviour  string `json:"behaviour"`   // pass | replace-reply | replace-error | context
	Proxied    bool   `json:"proxied"`     // the service is a backend registered with RegisterConn
	LateHeader bool   `json:"late_header"` // the handler uses the header API again after its headers went out (SetHeader after SendHeader / after its first reply) and returns the refusal if there is one
	Meta       bool   `json:"meta"`        // the handler sets header and trailer metadata
	RawReply   bool   `json:"raw_reply"`   // unary/server shapes: the method replies with google.api.HttpBody (raw bytes on HTTP)
	Encoding   string `json:"encoding"`    // gRPC / gRPC-web: grpc-encoding of the request ("" | identity | gzip)
	SendLimit  int    `json:"send_limit"`  // MaxSendMessageSize of the mux (0 = default): replies of 200 bytes do not fit a small limit
	BadBody    int    `json:"bad_body"`    // http: k > 0 makes the k-th message of the body ill-typed JSON (it reads fine and does not decode: nobody ever receives it)
	BadQuery   string `json:"bad_query"`   // http / httpget: a query string the method can not accept (the RPC is refused before the handler)
	StrayBody  string `json:"stray_body"`  // httpget: body sent although the binding maps none ("" = none; a leading "~" = unknown length)
}

// The proxied variant: one real backend serves un.C18 with the handlers of
// the current script (swapped through an atomic pointer).
type script struct {
	unary  dyn.UnaryFn
	stream dyn.StreamFn
}

var (
	backendOnce sync.Once
	backend     *drive.Backend
	curScript   atomic.Pointer[script]
)

func theBackend() *drive.Backend {
	backendOnce.Do(func() {
		w := theWorld()
		backend = drive.StartBackend(w, w.ServiceDesc("un.C18",
			func(ctx context.Context, fm string, req *dynamicpb.Message) (proto.Message, error) {
				return curScript.Load().unary(ctx, fm, req)
			},
			func(full string, in, out protoreflect.MessageDescriptor, ss grpc.ServerStream) error {
				return curScript.Load().stream(full, in, out, ss)
			}))
	})
	return backend
}

var (
	worldOnce sync.Once
	world     *dyn.World
)

func theWorld() *dyn.World {
	worldOnce.Do(func() {
		post := func(p string) *annotations.HttpRule {
			return &annotations.HttpRule{Pattern: &annotations.HttpRule_Post{Post: p}, Body: "*"}
		}
		un := post("/c18/unary")
		un.AdditionalBindings = []*annotations.HttpRule{{Pattern: &annotations.HttpRule_Get{Get: "/c18/unary/{f_string}"}}}
		rawu := post("/c18/rawu")
		rawu.AdditionalBindings = []*annotations.HttpRule{{Pattern: &annotations.HttpRule_Get{Get: "/c18/rawu/{f_string}"}}}
		world = uni.WorldWith(dyn.Svc("C18",
			dyn.MethodSpec{Name: "Unary", In: ".un.All", Out: ".un.All", Rule: un},
			dyn.MethodSpec{Name: "ClientS", In: ".un.All", Out: ".un.All", ClientStream: true, Rule: post("/c18/client")},
			dyn.MethodSpec{Name: "ServerS", In: ".un.All", Out: ".un.All", ServerStream: true, Rule: post("/c18/server")},
			dyn.MethodSpec{Name: "Bidi", In: ".un.All", Out: ".un.All", ClientStream: true, ServerStream: true, Rule: post("/c18/bidi")},
			dyn.MethodSpec{Name: "RawU", In: ".un.All", Out: ".google.api.HttpBody", Rule: rawu},
			dyn.MethodSpec{Name: "RawS", In: ".un.All", Out: ".google.api.HttpBody", ServerStream: true, Rule: post("/c18/raws")},
		))
	})
	return world
}

var methodOf = map[string]string{"unary": "/un.C18/Unary", "client": "/un.C18/ClientS", "server": "/un.C18/ServerS", "bidi": "/un.C18/Bidi"}
var pathOf = map[string]string{"unary": "/c18/unary", "client": "/c18/client", "server": "/c18/server", "bidi": "/c18/bidi"}

func mOf(c Case) string {
	if c.RawReply && c.Shape == "unary" {
		return "/un.C18/RawU"
	}
	if c.RawReply && c.Shape == "server" {
		return "/un.C18/RawS"
	}
	return methodOf[c.Shape]
}

func pOf(c Case) string {
	if c.RawReply && c.Shape == "unary" {
		return "/c18/rawu"
	}
	if c.RawReply && c.Shape == "server" {
		return "/c18/raws"
	}
	return pathOf[c.Shape]
}

// rawReply has a single populated field when the call is proxied: the proxy
// re-encodes a dynamicpb message, whose field order on the wire is
// deliberately unstable, and outcomes are compared byte for byte.
func rawReply(i int, proxied bool) proto.Message {
	m := &httpbody.HttpBody{ContentType: "application/x-c18", Data: []byte(fmt.Sprintf("raw-reply-%d;", i))}
	if proxied {
		m.ContentType = ""
	}
	return m
}

// msgOfSize returns un.All whose protobuf encoding has exactly n bytes.
func msgOfSize(w *dyn.World, n int) *dynamicpb.Message {
	md := w.MsgDesc("un.All")
	m := dynamicpb.NewMessage(md)
	switch {
	case n == 0:
	case n == 1:
		panic("size 1 is impossible")
	case n == 2:
		m.Set(md.Fields().ByName("f_bool"), protoreflect.ValueOfBool(true))
	default:
		m.Set(md.Fields().ByName("f_string"), protoreflect.ValueOfString(strings.Repeat("s", n-2)))
		if proto.Size(m) != n { // longer strings need a 2-byte length
			m.Set(md.Fields().ByName("f_string"), protoreflect.ValueOfString(strings.Repeat("s", n-3)))
		}
	}
	if proto.Size(m) != n {
		panic(fmt.Sprintf("size %d != %d", proto.Size(m), n))
	}
	return m
}

type ctxKey struct{}
type tagKey struct{}

type event struct {
	kind string
	err  error
	cs   bool
	ss   bool
}

type statsRec struct {
	mu     sync.Mutex
	tags   int
	events map[int][]event
	names  map[int]string
}

func (s *statsRec) TagRPC(ctx context.Context, info *stats.RPCTagInfo) context.Context {
	s.mu.Lock()
	defer s.mu.Unlock()
	s.tags++
	s.names[s.tags] = info.FullMethodName
	s.events[s.tags] = append(s.events[s.tags], event{kind: "TagRPC"})
	return context.WithValue(ctx, tagKey{}, s.tags)
}
func (s *statsRec) HandleRPC(ctx context.Context, st stats.RPCStats) {
	id, _ := ctx.Value(tagKey{}).(int)
	e := event{kind: strings.TrimPrefix(fmt.Sprintf("%T", st), "*stats.")}
	switch v := st.(type) {
	case *stats.End:
		e.err = v.Error
	case *stats.Begin:
		e.cs, e.ss = v.IsClientStream, v.IsServerStream
	// The metadata an event carries belongs to the stats handler (grpc-go hands out copies): this one
	// redacts what it is given, as an audit logger might. The RPC must not notice.
	case *stats.InHeader:
		meddle(v.Header)
	case *stats.OutHeader:
		meddle(v.Header)
	case *stats.OutTrailer:
		meddle(v.Trailer)
	}
	s.mu.Lock()
	s.events[id] = append(s.events[id], e)
	s.mu.Unlock()
}
func (s *statsRec) TagConn(ctx context.Context, _ *stats.ConnTagInfo) context.Context { return ctx }
func (s *statsRec) HandleConn(context.Context, stats.ConnStats)                       {}

func meddle(md metadata.MD) {
	for k := range md {
		delete(md, k)
	}
	if md != nil {
		md["x-stats-redacted"] = []string{"1"}
	}
}

// inKey is a request header every request carries; a locally served handler refuses the call without it.
const inKey = "x-c18-in"

var errNoIncoming = status.Error(codes.Unauthenticated, "request metadata "+inKey+" did not reach the handler")

type intLog struct {
	unaryCalls, streamCalls int
	fullMethod              string
	cs, ss                  bool
}

type handlerLog struct {
	recv, sent int
	sawCtx     bool
	err        error
	ran        bool
}

var errScripted = status.Error(codes.FailedPrecondition, "scripted")
var errReplaced = status.Error(codes.PermissionDenied, "replaced by interceptor")

type run struct {
	status   int
	header   string
	body     string
	trailer  string
	panicked string
}

func flat(h http.Header) string {
	var ks []string
	for k := range h {
		if k != "Date" {
			ks = append(ks, k)
		}
	}
	sort.Strings(ks)
	var sb strings.Builder
	for _, k := range ks {
		fmt.Fprintf(&sb, "%s=%q;", k, h[k])
	}
	return sb.String()
}

// execute runs the script with the given option subset.
func execute(c Case, unaryInt, streamInt, withStats bool, behaviour string) (run, *intLog, *handlerLog, *statsRec) {
	w := theWorld()
	il, hl := &intLog{}, &handlerLog{}
	sr := &statsRec{events: map[int][]event{}, names: map[int]string{}}
	opts := []larking.MuxOption{larking.FilesOption(w.Files)}
	if c.Proxied {
		opts = nil // descriptors come from the backend's reflection service
	}
	replaced := msgOfSize(w, 7)
	if unaryInt {
		ui := func(ctx context.Context, req any, info *grpc.UnaryServerInfo, h grpc.UnaryHandler) (any, error) {
			il.unaryCalls++
			il.fullMethod = info.FullMethod
			switch behaviour {
			case "replace-reply":
				if _, err := h(ctx, req); err != nil {
					return nil, err
				}
				return replaced, nil
			case "replace-error":
				h(ctx, req)
				return nil, errReplaced
			case "context":
				return larking.NewUnaryContext(func(ctx context.Context, fm string, cs, ss bool) context.Context {
					return context.WithValue(ctx, ctxKey{}, fm)
				})(ctx, req, info, h)
			}
			return h(ctx, req)
		}
		opts = append(opts, larking.UnaryServerInterceptorOption(ui))
	}
	if streamInt {
		si := func(srv any, ss grpc.ServerStream, info *grpc.StreamServerInfo, h grpc.StreamHandler) error {
			il.streamCalls++
			il.fullMethod, il.cs, il.ss = info.FullMethod, info.IsClientStream, info.IsServerStream
			switch behaviour {
			case "replace-error":
				h(srv, ss)
				return errReplaced
			case "context":
				return larking.NewStreamContext(func(ctx context.Context, fm string, cs, ss bool) context.Context {
					return context.WithValue(ctx, ctxKey{}, fm)
				})(srv, ss, info, h)
			}
			return h(srv, ss)
		}
		opts = append(opts, larking.StreamServerInterceptorOption(si))
	}
	if withStats {
		opts = append(opts, larking.StatsOption(sr))
	}
	if c.SendLimit > 0 {
		opts = append(opts, larking.MaxSendMessageSizeOption(c.SendLimit))
	}
	mux, err := larking.NewMux(opts...)
	if err != nil {
		panic(err)
	}
	reply := func(i int) proto.Message { return msgOfSize(w, 3+i) }
	unary := func(ctx context.Context, fm string, req *dynamicpb.Message) (proto.Message, error) {
		hl.ran = true
		hl.recv++
		if c.Meta {
			grpc.SetHeader(ctx, metadata.Pairs("x-h", "1"))
			grpc.SetTrailer(ctx, metadata.Pairs("x-t", "2"))
		}
		hl.sawCtx = ctx.Value(ctxKey{}) == fm
		if md, _ := metadata.FromIncomingContext(ctx); len(md.Get(inKey)) != 1 {
			hl.err = errNoIncoming
			return nil, errNoIncoming
		}
		if c.LateHeader {
			grpc.SendHeader(ctx, metadata.Pairs("x-early", "1"))
			if err := grpc.SetHeader(ctx, metadata.Pairs("x-late", "1")); err != nil {
				hl.err = err
				return nil, err
			}
		}
		if c.FailAfter >= 0 {
			hl.err = errScripted
			return nil, errScripted
		}
		hl.sent++
		if strings.HasSuffix(fm, "/RawU") {
			return rawReply(0, c.Proxied), nil
		}
		return reply(0), nil
	}
	stream := func(full string, in, out protoreflect.MessageDescriptor, ss grpc.ServerStream) error {
		hl.ran = true
		if c.Meta {
			ss.SetHeader(metadata.Pairs("x-h", "1"))
			ss.SetTrailer(metadata.Pairs("x-t", "2"))
		}
		hl.sawCtx = ss.Context().Value(ctxKey{}) == full
		if md, _ := metadata.FromIncomingContext(ss.Context()); len(md.Get(inKey)) != 1 {
			hl.err = errNoIncoming
			return errNoIncoming
		}
		single := strings.HasSuffix(full, "/ServerS") || strings.HasSuffix(full, "/RawS")
		raw := strings.HasSuffix(full, "/RawS")
		for {
			m := dynamicpb.NewMessage(in)
			if err := ss.RecvMsg(m); err != nil {
				if err != io.EOF {
					hl.err = err
					return err
				}
				break
			}
			hl.recv++
			if single {
				break
			}
		}
		n := c.Replies
		if strings.HasSuffix(full, "/ClientS") {
			n = 1
		}
		for i := 0; i < n; i++ {
			if c.FailAfter >= 0 && i == c.FailAfter {
				hl.err = errScripted
				return errScripted
			}
			var out proto.Message = reply(i)
			if raw {
				out = rawReply(i, c.Proxied)
			}
			if err := ss.SendMsg(out); err != nil {
				hl.err = err
				return err
			}
			hl.sent++
			if c.LateHeader && i == 0 {
				if err := ss.SetHeader(metadata.Pairs("x-late", "1")); err != nil {
					hl.err = err
					return err
				}
			}
		}
		if c.FailAfter >= 0 && c.FailAfter >= n {
			hl.err = errScripted
			return errScripted
		}
		return nil
	}
	if c.Proxied {
		curScript.Store(&script{unary, stream})
		ctx, cancel := context.WithTimeout(context.Background(), 20*time.Second)
		err := mux.RegisterConn(ctx, theBackend().CC)
		cancel()
		if err != nil {
			panic(err)
		}
	} else if err := mux.VerifRegisterService(w.ServiceDesc("un.C18", unary, stream), nil); err != nil {
		panic(err)
	}
	// request
	var body bytes.Buffer
	hdr := http.Header{}
	hdr.Set(inKey, "v")
	var req *http.Request
	streamingClient := c.Shape == "client" || c.Shape == "bidi"
	switch c.Transport {
	case "http":
		hdr.Set("Content-Type", "application/json")
		for i, n := range c.Sizes {
			b, _ := protojson.Marshal(msgOfSize(w, n))
			if c.BadBody == i+1 {
				b = []byte(`{"f_int32":"two"}`)
			}
			body.Write(b)
		}
		cl := int64(body.Len())
		if streamingClient {
			cl = -1
		}
		req = drive.Request("POST", pOf(c), c.BadQuery, hdr, bytes.NewReader(body.Bytes()), cl)
	case "httpget":
		if c.StrayBody == "" {
			req = drive.Request("GET", strings.TrimSuffix(pOf(c), "/")+"/abc", c.BadQuery, hdr, nil, 0)
		} else {
			// the binding maps no body: the message is still built from the URL alone
			hdr.Set("Content-Type", "application/json")
			b := strings.TrimPrefix(c.StrayBody, "~")
			cl := int64(len(b))
			if b != c.StrayBody {
				cl = -1
			}
			req = drive.Request("GET", strings.TrimSuffix(pOf(c), "/")+"/abc", c.BadQuery, hdr, strings.NewReader(b), cl)
		}
	case "grpc", "grpcweb":
		for _, n := range c.Sizes {
			b, _ := proto.Marshal(msgOfSize(w, n))
			body.Write(drive.GRPCFrame(b, c.Encoding == "gzip"))
		}
		if c.Encoding != "" {
			hdr.Set("Grpc-Encoding", c.Encoding)
		}
		if c.Transport == "grpc" {
			req = drive.GRPCRequest(mOf(c), hdr, bytes.NewReader(body.Bytes()), "application/grpc")
		} else {
			hdr.Set("Content-Type", "application/grpc-web+proto")
			req = drive.Request("POST", mOf(c), "", hdr, bytes.NewReader(body.Bytes()), -1)
		}
	}
	res := drive.Serve(mux, req)
	r := run{status: res.Rec.Code, header: flat(res.Hdr), body: res.Rec.Body.String(), trailer: flat(res.Trailer)}
	if res.Panic != nil {
		r.panicked = res.PanicSig() + ": " + fmt.Sprint(res.Panic)
	}
	return r, il, hl, sr
}

func sameErr(a, b error) bool {
	sa, _ := status.FromError(a)
	sb, _ := status.FromError(b)
	if a == nil || b == nil {
		return a == nil && b == nil
	}
	return sa.Code() == sb.Code() && sa.Message() == sb.Message()
}

func Check(c Case) []evid.Violation {
	sig := c.Transport + ":" + c.Shape + ":"
	fail := func(clause, s, f string, a ...any) []evid.Violation {
		return []evid.Violation{evid.V(clause, sig+s, f, a...)}
	}
	base, _, bhl, _ := execute(c, false, false, false, "pass")
	if base.panicked != "" {
		return fail("panic", "baseline-panic", "options off: %s", base.panicked)
	}
	got, il, hl, sr := execute(c, c.UnaryInt, c.StreamInt, c.Stats, c.Behaviour)
	if got.panicked != "" {
		return fail("transparency", "panic-with-options@"+strings.SplitN(got.panicked, ":", 2)[0], "options (unary=%v stream=%v stats=%v): %s", c.UnaryInt, c.StreamInt, c.Stats, got.panicked)
	}
	if (c.BadQuery != "" || c.BadBody > 0) && !hl.ran && !bhl.ran {
		// refused before the handler: the options must not change the answer, and whatever the stats
		// handler was told must still be a complete sequence (nothing at all, or Tag .. Begin .. End once)
		if got != base {
			return fail("transparency", "outcome-differs", "options changed the answer to a refused request:\n  off: %+v\n  on:  %+v", base, got)
		}
		if c.Stats {
			if len(sr.events[0]) > 0 || sr.tags > 1 {
				return fail("stats", "untagged-events", "refused request: %d untagged events, %d tags", len(sr.events[0]), sr.tags)
			}
			if ks := kinds(sr.events[1]); len(ks) > 0 {
				nEnd, nBegin := 0, 0
				for _, k := range ks {
					if k == "End" {
						nEnd++
					}
					if k == "Begin" {
						nBegin++
					}
				}
				if c.BadBody > 0 {
					for _, k := range ks {
						if k == "InPayload" {
							return fail("stats", "inpayload-count", "refused request (body does not decode): InPayload reported for a message nobody received: %v", ks)
						}
					}
				}
				if nBegin != nEnd || nEnd > 1 || (nEnd == 1 && ks[len(ks)-1] != "End") {
					return fail("stats", "refused-request-sequence", "refused request (query %q): event sequence %v is not closed by exactly one End", c.BadQuery, ks)
				}
			}
		}
		return nil
	}
	if !hl.ran || !bhl.ran {
		return fail("dispatch", "not-dispatched", "handler did not run (status %d %q)", got.status, got.body)
	}
	unaryMethod := c.Shape == "unary"
	// ---- interceptors ----
	if unaryMethod {
		want := 0
		if c.UnaryInt {
			want = 1
		}
		if il.unaryCalls != want || il.streamCalls != 0 {
			return fail("interceptor", "interceptor-count", "unary RPC: unary interceptor ran %d times (want %d), stream interceptor %d times", il.unaryCalls, want, il.streamCalls)
		}
	} else {
		want := 0
		if c.StreamInt {
			want = 1
		}
		if il.streamCalls != want || il.unaryCalls != 0 {
			return fail("interceptor", "interceptor-count", "streaming RPC: stream interceptor ran %d times (want %d), unary interceptor %d times", il.streamCalls, want, il.unaryCalls)
		}
		if c.StreamInt && (il.cs != (c.Shape == "client" || c.Shape == "bidi") || il.ss != (c.Shape == "server" || c.Shape == "bidi")) {
			return fail("interceptor", "interceptor-flags", "StreamServerInfo flags client=%v server=%v for shape %s", il.cs, il.ss, c.Shape)
		}
	}
	active := (unaryMethod && c.UnaryInt) || (!unaryMethod && c.StreamInt)
	if active && il.fullMethod != mOf(c) {
		return fail("interceptor", "interceptor-fullmethod", "FullMethod %q want %q", il.fullMethod, mOf(c))
	}
	if active && c.Behaviour == "context" && !hl.sawCtx && !c.Proxied {
		return fail("interceptor", "context-not-propagated", "context decorated by the interceptor did not reach the handler")
	}
	// ---- what the interceptor returns is what the client gets / transparency ----
	switch {
	case !active || c.Behaviour == "pass" || c.Behaviour == "context":
		if got != base {
			return fail("transparency", "outcome-differs", "options (unary=%v stream=%v stats=%v %s) changed the outcome:\n  off: %+v\n  on:  %+v", c.UnaryInt, c.StreamInt, c.Stats, c.Behaviour, base, got)
		}
	case c.Behaviour == "replace-error":
		// the client must see the interceptor's error (where a status can still travel)
		if c.Transport == "grpc" || c.Transport == "grpcweb" {
			if !strings.Contains(got.trailer+got.body+got.header, "replaced by interceptor") {
				return fail("interceptor-result", "replaced-error-not-seen", "client does not see the interceptor's error: %+v", got)
			}
		} else if hl.sent == 0 && got.status != 403 {
			return fail("interceptor-result", "replaced-error-not-seen", "HTTP status %d, want 403 from the interceptor's error", got.status)
		}
	case c.Behaviour == "replace-reply":
		plain := got.body
		if c.Encoding == "gzip" {
			// replies travel compressed: look at the inflated frames
			if frames, err := drive.ParseFrames([]byte(got.body)); err == nil {
				plain = ""
				for _, f := range frames {
					plain += string(f.Payload)
				}
			}
		}
		if unaryMethod && c.FailAfter < 0 && hl.err == nil && !strings.Contains(plain, "sssss") {
			return fail("interceptor-result", "replaced-reply-not-seen", "client does not see the interceptor's reply: %q", got.body)
		}
	}
	// ---- stats ----
	if c.Stats {
		if len(sr.events[0]) > 0 {
			return fail("stats", "untagged-events", "%d stats events carried a context without the TagRPC tag: %v", len(sr.events[0]), kinds(sr.events[0]))
		}
		if sr.tags != 1 {
			return fail("stats", "tag-count", "TagRPC called %d times for one RPC", sr.tags)
		}
		ev := sr.events[1]
		ks := kinds(ev)
		if len(ks) < 4 || ks[0] != "TagRPC" || ks[1] != "InHeader" || ks[2] != "Begin" || ks[len(ks)-1] != "End" {
			return fail("stats", "sequence-shape", "event sequence %v does not match TagRPC InHeader Begin ... End", ks)
		}
		nIn, nOut, nEnd, nOutHeader, nTrailer := 0, 0, 0, 0, 0
		firstOutPayload, outHeaderAt := -1, -1
		for i, e := range ev[3:] {
			switch e.kind {
			case "InPayload":
				nIn++
			case "OutPayload":
				nOut++
				if firstOutPayload < 0 {
					firstOutPayload = i
				}
			case "OutHeader":
				nOutHeader++
				outHeaderAt = i
			case "OutTrailer":
				nTrailer++
			case "End":
				nEnd++
			default:
				return fail("stats", "unexpected-event", "unexpected event %s in %v", e.kind, ks)
			}
		}
		if nEnd != 1 {
			return fail("stats", "end-count", "End emitted %d times: %v", nEnd, ks)
		}
		if nOutHeader > 1 || nTrailer > 1 {
			return fail("stats", "duplicate-header-events", "OutHeader x%d OutTrailer x%d: %v", nOutHeader, nTrailer, ks)
		}
		if firstOutPayload >= 0 && (outHeaderAt < 0 || outHeaderAt > firstOutPayload) {
			return fail("stats", "outheader-order", "OutHeader must precede the first OutPayload: %v", ks)
		}
		// A backend's failing script may send replies that gRPC itself never
		// delivers to the proxy; counts are compared for proxied calls only
		// when the script succeeds.
		countsComparable := !c.Proxied || (c.FailAfter < 0 && !c.LateHeader)
		if countsComparable && nIn != hl.recv {
			return fail("stats", "inpayload-count", "InPayload x%d but the handler received %d messages (%v)", nIn, hl.recv, ks)
		}
		wantOut := hl.sent
		if active && c.Behaviour == "replace-error" && unaryMethod {
			wantOut = 0
		}
		if countsComparable && nOut != wantOut {
			return fail("stats", "outpayload-count", "OutPayload x%d but %d messages were sent (%v)", nOut, wantOut, ks)
		}
		wantErr := hl.err
		if active && c.Behaviour == "replace-error" {
			wantErr = errReplaced
		}
		if !sameErr(ev[len(ev)-1].err, wantErr) {
			return fail("stats", "end-error", "End.Error %v, RPC error %v", ev[len(ev)-1].err, wantErr)
		}
		if ev[2].cs != (c.Shape == "client" || c.Shape == "bidi") || ev[2].ss != (c.Shape == "server" || c.Shape == "bidi") {
			return fail("stats", "begin-flags", "Begin flags client=%v server=%v for shape %s", ev[2].cs, ev[2].ss, c.Shape)
		}
		if sr.names[1] != mOf(c) {
			return fail("stats", "tag-method", "TagRPC FullMethodName %q want %q", sr.names[1], mOf(c))
		}
	}
	return nil
}

func kinds(ev []event) []string {
	var out []string
	for _, e := range ev {
		out = append(out, e.kind)
	}
	return out
}

func genCase(t *rapid.T) Case {
	c := Case{FailAfter: -1}
	c.Shape = rapid.SampledFrom([]string{"unary", "client", "server", "bidi"}).Draw(t, "shape")
	c.Transport = rapid.SampledFrom([]string{"http", "grpc", "grpcweb"}).Draw(t, "transport")
	if c.Shape == "unary" && rapid.IntRange(0, 4).Draw(t, "get") == 0 {
		c.Transport = "httpget"
		c.StrayBody = rapid.SampledFrom([]string{"", "", "{}", `{"f_int32":7}`, "~{}", `~{"f_string":"other"}`}).Draw(t, "strayBody")
	}
	sizeGen := rapid.SampledFrom([]int{0, 2, 3, 4, 5, 6, 7, 40, 200})
	n := 1
	if c.Shape == "client" || c.Shape == "bidi" {
		n = rapid.IntRange(0, 4).Draw(t, "n")
	}
	for i := 0; i < n; i++ {
		c.Sizes = append(c.Sizes, sizeGen.Draw(t, "size"))
	}
	c.Replies = rapid.IntRange(0, 4).Draw(t, "replies")
	if rapid.IntRange(0, 2).Draw(t, "fail") == 0 {
		c.FailAfter = rapid.IntRange(0, 2).Draw(t, "failAfter")
	}
	c.UnaryInt = rapid.Bool().Draw(t, "unaryInt")
	c.StreamInt = rapid.Bool().Draw(t, "streamInt")
	c.Stats = rapid.Bool().Draw(t, "stats")
	c.Behaviour = rapid.SampledFrom([]string{"pass", "pass", "replace-reply", "replace-error", "context"}).Draw(t, "behaviour")
	c.Meta = rapid.Bool().Draw(t, "meta")
	c.LateHeader = rapid.IntRange(0, 5).Draw(t, "lateHeader") == 0
	if (c.Transport == "http" || c.Transport == "httpget") && rapid.IntRange(0, 7).Draw(t, "badQuery") == 0 {
		c.BadQuery = rapid.SampledFrom([]string{"nope=1", "f_int32=two", "f_string=a&nope.x=1", "r_leaf.count=1"}).Draw(t, "badQueryV")
	}
	if c.Transport == "http" && c.BadQuery == "" && len(c.Sizes) > 0 && rapid.IntRange(0, 7).Draw(t, "badBody") == 0 {
		c.BadBody = rapid.IntRange(1, len(c.Sizes)).Draw(t, "badBodyAt")
	}
	if (c.Shape == "server" || c.Shape == "bidi") && rapid.IntRange(0, 5).Draw(t, "sendLimit") == 0 {
		// replies have 3, 4, 5, ... encoded bytes: with a limit of 4 or 5 a later SendMsg is refused
		c.SendLimit = rapid.SampledFrom([]int{4, 5}).Draw(t, "sendLimitV")
	}
	if c.Transport == "grpc" || c.Transport == "grpcweb" {
		c.Encoding = rapid.SampledFrom([]string{"", "", "identity", "gzip"}).Draw(t, "encoding")
	}
	if (c.Shape == "unary" || c.Shape == "server") && c.Behaviour != "replace-reply" {
		c.RawReply = rapid.IntRange(0, 3).Draw(t, "rawReply") == 0
	}
	return c
}

func TestProp(t *testing.T) {
	rapid.Check(t, func(t *rapid.T) {
		c := genCase(t)
		vs := Check(c)
		small := false
		for _, s := range c.Sizes {
			small = small || s < 5
		}
		anyOpt := c.UnaryInt || c.StreamInt || c.Stats
		cl := []string{"shape=" + c.Shape, "transport=" + c.Transport, "behaviour=" + c.Behaviour}
		if c.Stats {
			cl = append(cl, "stats")
		}
		if small {
			cl = append(cl, "message<5B")
		}
		if c.RawReply {
			cl = append(cl, "httpbody-reply")
		}
		if c.Encoding != "" {
			cl = append(cl, "grpc-encoding="+c.Encoding)
		}
		if c.BadQuery != "" {
			cl = append(cl, "refused-by-query")
		}
		if c.BadBody > 0 {
			cl = append(cl, "message-that-does-not-decode")
		}
		if c.LateHeader {
			cl = append(cl, "header-api-used-after-the-headers-went-out")
		}
		if c.SendLimit > 0 {
			cl = append(cl, "send-limit")
		}
		key := ""
		if anyOpt && (c.Shape != "unary" || c.FailAfter >= 0 || small) {
			key = fmt.Sprintf("%+v", c)
		}
		evid.Eval(key, cl...)
		evid.Sample(c.Shape+"/"+c.Transport, c)
		evid.Report(t, prop, c, vs)
	})
}

func TestPropProxied(t *testing.T) {
	rapid.Check(t, func(t *rapid.T) {
		c := genCase(t)
		c.Proxied = true
		c.SendLimit = 0 // the backend's own sends are not limited: its handler can not see the front's refusal
		c.BadBody = 0   // the front refuses the message; what the backend has received by then is a matter of timing
		if c.Transport == "httpget" {
			c.Transport, c.StrayBody = "http", "" // the annotation routes of the local world are not part of the backend's implicit bindings
		}
		vs := Check(c)
		key := ""
		if c.UnaryInt || c.StreamInt || c.Stats {
			key = fmt.Sprintf("proxied|%+v", c)
		}
		evid.Eval(key, "proxied", "shape="+c.Shape, "transport="+c.Transport)
		evid.Sample("proxied/"+c.Shape+"/"+c.Transport, c)
		evid.Report(t, prop, c, vs)
	})
}

func TestReplay(t *testing.T) {
	path := os.Getenv("VERIF_REPLAY")
	if path == "" {
		t.Skip("VERIF_REPLAY not set")
	}
	var c Case
	if err := evid.LoadReplay(path, &c); err != nil {
		t.Fatal(err)
	}
	evid.Report(t, prop, c, Check(c))
}
