package route

import (
	"encoding/base64"
	"fmt"
	"strings"

	"pgregory.net/rapid"

	"verif/ref"
)

// LitPool is deliberately small so that generated rule sets overlap.
var LitPool = []string{"v1", "v2", "books", "shelves", "items", "a1", "x-y", "a.b"}

// VerbPool are ":verb" suffixes.
var VerbPool = []string{"read", "get", "v1", "x.y"}

// HTTPVerbs are rule verbs; customs are upper-cased by larking.
var HTTPVerbs = []string{"GET", "GET", "POST", "PUT", "DELETE", "PATCH", "HEAD", "OPTIONS", "search", "*"}

// GenOpts steer the template generator.
type GenOpts struct {
	StarStarOnlyLast bool // "**" only as the very last atom (google's restriction)
	NoTyped          bool // only string fields
	MaxSegs          int
}

// FieldKind returns a one-letter kind for a path-eligible field.
func FieldKind(f string) string {
	switch f {
	case "i32", "sub.n":
		return "i32"
	case "i64", "sub.inner.num":
		return "i64"
	case "u64":
		return "u64"
	case "flag":
		return "bool"
	case "kind":
		return "enum"
	case "dbl":
		return "dbl"
	case "raw":
		return "bytes"
	}
	return "str"
}

// GenTemplate draws a template from the grammar.
func GenTemplate(t *rapid.T, o GenOpts) *ref.Template {
	if o.MaxSegs == 0 {
		o.MaxSegs = 5
	}
	n := rapid.IntRange(1, o.MaxSegs).Draw(t, "nsegs")
	used := map[string]bool{}
	tm := &ref.Template{}
	hasVerb := rapid.IntRange(0, 3).Draw(t, "hasVerb") == 0
	for i := 0; i < n; i++ {
		last := i == n-1
		k := rapid.IntRange(0, 19).Draw(t, "segkind")
		switch {
		case k < 9 || (i == 0 && k < 14):
			tm.Segs = append(tm.Segs, ref.Seg{Kind: ref.Lit, Lit: rapid.SampledFrom(LitPool).Draw(t, "lit")})
		case k < 11:
			tm.Segs = append(tm.Segs, ref.Seg{Kind: ref.Star})
		case k < 12:
			if o.StarStarOnlyLast && !last {
				tm.Segs = append(tm.Segs, ref.Seg{Kind: ref.Star})
			} else {
				tm.Segs = append(tm.Segs, ref.Seg{Kind: ref.StarStar})
			}
		default:
			pool := append([]string{}, StringFields...)
			if !o.NoTyped {
				pool = append(pool, TypedFields...)
			}
			var free []string
			for _, f := range pool {
				if !used[f] {
					free = append(free, f)
				}
			}
			if len(free) == 0 {
				tm.Segs = append(tm.Segs, ref.Seg{Kind: ref.Lit, Lit: rapid.SampledFrom(LitPool).Draw(t, "lit")})
				continue
			}
			f := rapid.SampledFrom(free).Draw(t, "field")
			used[f] = true
			sg := ref.Seg{Kind: ref.Var, Field: strings.Split(f, "."), Pat: []ref.Seg{{Kind: ref.Star}}}
			if FieldKind(f) == "str" {
				lit := func() ref.Seg { return ref.Seg{Kind: ref.Lit, Lit: rapid.SampledFrom(LitPool).Draw(t, "plit")} }
				star, ss := ref.Seg{Kind: ref.Star}, ref.Seg{Kind: ref.StarStar}
				switch p := rapid.IntRange(0, 9).Draw(t, "pat"); {
				case p < 3:
				case p == 3:
					sg.Pat = []ref.Seg{lit(), star}
				case p == 4:
					sg.Pat = []ref.Seg{lit(), star, lit()}
				case p == 5:
					sg.Pat = []ref.Seg{star, lit()}
				case p == 6:
					sg.Pat = []ref.Seg{star, star}
				case p == 7:
					if !o.StarStarOnlyLast || last {
						sg.Pat = []ref.Seg{ss}
					}
				case p == 8:
					if !o.StarStarOnlyLast || last {
						sg.Pat = []ref.Seg{lit(), ss}
					}
				case p == 9:
					if !o.StarStarOnlyLast || last {
						sg.Pat = []ref.Seg{lit(), lit(), ss}
					} else {
						sg.Pat = []ref.Seg{lit()}
					}
				}
			}
			tm.Segs = append(tm.Segs, sg)
		}
	}
	if hasVerb {
		tm.Verb = rapid.SampledFrom(VerbPool).Draw(t, "tverb")
	}
	// recompute flags through the parser
	p, err := ref.ParseTemplate(tm.String())
	if err != nil {
		panic(fmt.Sprintf("generator produced unparsable template %q: %v", tm.String(), err))
	}
	return p
}

// GenRuleSet draws 1..maxMethods methods with 1..3 bindings each.
func GenRuleSet(t *rapid.T, o GenOpts, maxMethods int) RuleSet {
	n := rapid.IntRange(1, maxMethods).Draw(t, "nmethods")
	var rs RuleSet
	for i := 0; i < n; i++ {
		nb := rapid.SampledFrom([]int{1, 1, 1, 2, 2, 3}).Draw(t, "nbindings")
		var mr MethodRules
		for j := 0; j < nb; j++ {
			mr.Bindings = append(mr.Bindings, Binding{
				Verb: rapid.SampledFrom(HTTPVerbs).Draw(t, "verb"),
				Tmpl: GenTemplate(t, o).String(),
			})
		}
		rs = append(rs, mr)
	}
	return rs
}

const pathAlphabet = "abcdefghijklmnopqrstuvwxyzABCDEFGHIJKLMNOPQRSTUVWXYZ0123456789.-_~!$&'()*+,;=@"

var unicodeLetters = []rune("éßñžλжשع中あ한๑٣")

// GenSegment draws one path segment from the documented path alphabet.
func GenSegment(t *rapid.T, label string) string {
	switch rapid.IntRange(0, 9).Draw(t, label+"k") {
	case 0, 1, 2:
		return rapid.SampledFrom(LitPool).Draw(t, label+"lit")
	case 3:
		return string(pathAlphabet[rapid.IntRange(0, len(pathAlphabet)-1).Draw(t, label+"c")])
	case 4:
		n := rapid.IntRange(1, 3).Draw(t, label+"n")
		var sb strings.Builder
		for i := 0; i < n; i++ {
			sb.WriteRune(rapid.SampledFrom(unicodeLetters).Draw(t, label+"u"))
		}
		return sb.String()
	default:
		n := rapid.IntRange(1, 8).Draw(t, label+"n")
		var sb strings.Builder
		for i := 0; i < n; i++ {
			sb.WriteByte(pathAlphabet[rapid.IntRange(0, len(pathAlphabet)-1).Draw(t, label+"c")])
		}
		return sb.String()
	}
}

// GenTyped draws convertible URL text for a typed field kind.
func GenTyped(t *rapid.T, kind, label string) string {
	switch kind {
	case "i32":
		return fmt.Sprint(rapid.OneOf(rapid.Int32(), rapid.SampledFrom([]int32{0, 1, -1, 2147483647, -2147483648})).Draw(t, label))
	case "i64":
		return fmt.Sprint(rapid.OneOf(rapid.Int64(), rapid.SampledFrom([]int64{0, -1, 9223372036854775807, -9223372036854775808, 1 << 53})).Draw(t, label))
	case "u64":
		return fmt.Sprint(rapid.OneOf(rapid.Uint64(), rapid.SampledFrom([]uint64{0, 1, 18446744073709551615})).Draw(t, label))
	case "bool":
		return rapid.SampledFrom([]string{"true", "false"}).Draw(t, label)
	case "enum":
		return rapid.SampledFrom([]string{"ALPHA", "BETA", "KIND_UNSPECIFIED", "1", "2", "0"}).Draw(t, label)
	case "dbl":
		return rapid.SampledFrom([]string{"0", "1.5", "-2", "1e3", "0.1", "-0.25", "123456789.125"}).Draw(t, label)
	case "bytes":
		b := rapid.SliceOfN(rapid.Byte(), 0, 6).Draw(t, label)
		if len(b) == 0 {
			b = []byte{1}
		}
		return base64.URLEncoding.EncodeToString(b)
	}
	return GenSegment(t, label)
}

// Instantiate fills the template's wildcards and returns the path together
// with the text each top-level variable covers. "**" gets 1..maxSS segments.
func Instantiate(t *rapid.T, tm *ref.Template, maxSS int) (string, ref.Binding) {
	atoms := tm.Atoms()
	vars := tm.Vars()
	caps := make([][]string, len(vars))
	var segs []string
	for ai, a := range atoms {
		var parts []string
		switch a.Kind {
		case ref.Lit:
			parts = []string{a.Lit}
		case ref.Star:
			kind := "str"
			if a.Var >= 0 {
				kind = FieldKind(strings.Join(vars[a.Var], "."))
			}
			if kind == "str" {
				parts = []string{GenSegment(t, fmt.Sprint("seg", ai))}
			} else {
				parts = []string{GenTyped(t, kind, fmt.Sprint("typed", ai))}
			}
		case ref.StarStar:
			n := rapid.IntRange(1, maxSS).Draw(t, fmt.Sprint("ss", ai))
			for i := 0; i < n; i++ {
				parts = append(parts, GenSegment(t, fmt.Sprint("ss", ai, "_", i)))
			}
		}
		segs = append(segs, parts...)
		if a.Var >= 0 {
			caps[a.Var] = append(caps[a.Var], parts...)
		}
	}
	p := "/" + strings.Join(segs, "/")
	if tm.Verb != "" {
		p += ":" + tm.Verb
	}
	b := make(ref.Binding, len(vars))
	for i := range vars {
		b[i] = strings.Join(caps[i], "/")
	}
	return p, b
}
