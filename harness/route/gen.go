package route

import (
	"encoding/base64"
	"fmt"
	"strings"

	"pgregory.net/rapid"

	"verif/ref"
)

// LitPool is deliberately small so that generated rule sets overlap.
var LitPool = []string{"v1", "v2", "books", "shelves", "items", "a1", "x-y", "a.b"}

// VerbPool are ":verb" suffixes.
var VerbPool = []string{"read", "get", "v1", "x.y"}

// HTTPVerbs are rule verbs; customs are upper-cased by larking.
var HTTPVerbs = []string{"GET", "GET", "POST", "PUT", "DELETE", "PATCH", "HEAD", "OPTIONS", "search", "*"}

// GenOpts steer the template generator.
type GenOpts struct {
	StarStarOnlyLast bool // "**" only as the very last atom (google's restriction)
	NoTyped          bool // only string fields
	MaxSegs          int
	Lits             []string // literal pool (default LitPool)
	Verbs            []string // :verb pool (default VerbPool)
}

// FieldKind returns a one-letter kind for a path-eligible field.
func FieldKind(f string) string {
	switch f {
	case "i32", "sub.n", "page_size", "pageSize":
		return "i32"
	case "i64", "sub.inner.num":
		return "i64"
	case "u64":
		return "u64"
	case "flag":
		return "bool"
	case "kind":
		return "enum"
	case "dbl":
		return "dbl"
	case "raw":
		return "bytes"
	}
	return "str"
}

// GenTemplate draws a template from the grammar.
func GenTemplate(t *rapid.T, o GenOpts) *ref.Template {
	if o.MaxSegs == 0 {
		o.MaxSegs = 5
	}
	if o.Lits == nil {
		o.Lits = LitPool
	}
	if o.Verbs == nil {
		o.Verbs = VerbPool
	}
	n := rapid.IntRange(1, o.MaxSegs).Draw(t, "nsegs")
	used := map[string]bool{}
	tm := &ref.Template{}
	hasVerb := rapid.IntRange(0, 3).Draw(t, "hasVerb") == 0
	for i := 0; i < n; i++ {
		last := i == n-1
		k := rapid.IntRange(0, 19).Draw(t, "segkind")
		switch {
		case k < 9 || (i == 0 && k < 14):
			tm.Segs = append(tm.Segs, ref.Seg{Kind: ref.Lit, Lit: rapid.SampledFrom(o.Lits).Draw(t, "lit")})
		case k < 11:
			tm.Segs = append(tm.Segs, ref.Seg{Kind: ref.Star})
		case k < 12:
			if o.StarStarOnlyLast && !last {
				tm.Segs = append(tm.Segs, ref.Seg{Kind: ref.Star})
			} else {
				tm.Segs = append(tm.Segs, ref.Seg{Kind: ref.StarStar})
			}
		default:
			pool := append([]string{}, StringFields...)
			if !o.NoTyped {
				pool = append(pool, TypedFields...)
			}
			var free []string
			for _, f := range pool {
				if !used[f] {
					free = append(free, f)
				}
			}
			if len(free) == 0 {
				tm.Segs = append(tm.Segs, ref.Seg{Kind: ref.Lit, Lit: rapid.SampledFrom(o.Lits).Draw(t, "lit")})
				continue
			}
			f := rapid.SampledFrom(free).Draw(t, "field")
			used[f] = true
			sg := ref.Seg{Kind: ref.Var, Field: strings.Split(f, "."), Pat: []ref.Seg{{Kind: ref.Star}}}
			if FieldKind(f) == "str" {
				lit := func() ref.Seg { return ref.Seg{Kind: ref.Lit, Lit: rapid.SampledFrom(o.Lits).Draw(t, "plit")} }
				star, ss := ref.Seg{Kind: ref.Star}, ref.Seg{Kind: ref.StarStar}
				switch p := rapid.IntRange(0, 9).Draw(t, "pat"); {
				case p < 3:
				case p == 3:
					sg.Pat = []ref.Seg{lit(), star}
				case p == 4:
					sg.Pat = []ref.Seg{lit(), star, lit()}
				case p == 5:
					sg.Pat = []ref.Seg{star, lit()}
				case p == 6:
					sg.Pat = []ref.Seg{star, star}
				case p == 7:
					if !o.StarStarOnlyLast || last {
						sg.Pat = []ref.Seg{ss}
					}
				case p == 8:
					if !o.StarStarOnlyLast || last {
						sg.Pat = []ref.Seg{lit(), ss}
					}
				case p == 9:
					if !o.StarStarOnlyLast || last {
						sg.Pat = []ref.Seg{lit(), lit(), ss}
					} else {
						sg.Pat = []ref.Seg{lit()}
					}
				}
			}
			tm.Segs = append(tm.Segs, sg)
		}
	}
	if hasVerb {
		tm.Verb = rapid.SampledFrom(o.Verbs).Draw(t, "tverb")
	}
	// recompute flags through the parser
	p, err := ref.ParseTemplate(tm.String())
	if err != nil {
		panic(fmt.Sprintf("generator produced unparsable template %q: %v", tm.String(), err))
	}
	return p
}

// GenRuleSet draws 1..maxMethods methods with 1..3 bindings each.
func GenRuleSet(t *rapid.T, o GenOpts, maxMethods int) RuleSet {
	n := rapid.IntRange(1, maxMethods).Draw(t, "nmethods")
	var rs RuleSet
	for i := 0; i < n; i++ {
		nb := rapid.SampledFrom([]int{1, 1, 1, 2, 2, 3}).Draw(t, "nbindings")
		var mr MethodRules
		for j := 0; j < nb; j++ {
			mr.Bindings = append(mr.Bindings, Binding{
				Verb: rapid.SampledFrom(HTTPVerbs).Draw(t, "verb"),
				Tmpl: GenTemplate(t, o).String(),
			})
		}
		rs = append(rs, mr)
	}
	return rs
}

const pathAlphabet = "abcdefghijklmnopqrstuvwxyzABCDEFGHIJKLMNOPQRSTUVWXYZ0123456789.-_~!$&'()*+,;=@"

var unicodeLetters = []rune("éßñžλжשع中あ한๑٣")

// GenSegment draws one path segment from the documented path alphabet.
func GenSegment(t *rapid.T, label string) string {
	switch rapid.IntRange(0, 9).Draw(t, label+"k") {
	case 0, 1, 2:
		return rapid.SampledFrom(LitPool).Draw(t, label+"lit")
	case 3:
		return string(pathAlphabet[rapid.IntRange(0, len(pathAlphabet)-1).Draw(t, label+"c")])
	case 4:
		n := rapid.IntRange(1, 3).Draw(t, label+"n")
		var sb strings.Builder
		for i := 0; i < n; i++ {
			sb.WriteRune(rapid.SampledFrom(unicodeLetters).Draw(t, label+"u"))
		}
		return sb.String()
	default:
		n := rapid.IntRange(1, 8).Draw(t, label+"n")
		var sb strings.Builder
		for i := 0; i < n; i++ {
			sb.WriteByte(pathAlphabet[rapid.IntRange(0, len(pathAlphabet)-1).Draw(t, label+"c")])
		}
		return sb.String()
	}
}

// GenTyped draws convertible URL text for a typed field kind.
func GenTyped(t *rapid.T, kind, label string) string {
	switch kind {
	case "i32":
		return fmt.Sprint(rapid.OneOf(rapid.Int32(), rapid.SampledFrom([]int32{0, 1, -1, 2147483647, -2147483648})).Draw(t, label))
	case "i64":
		return fmt.Sprint(rapid.OneOf(rapid.Int64(), rapid.SampledFrom([]int64{0, -1, 9223372036854775807, -9223372036854775808, 1 << 53})).Draw(t, label))
	case "u64":
		return fmt.Sprint(rapid.OneOf(rapid.Uint64(), rapid.SampledFrom([]uint64{0, 1, 18446744073709551615})).Draw(t, label))
	case "bool":
		return rapid.SampledFrom([]string{"true", "false"}).Draw(t, label)
	case "enum":
		return rapid.SampledFrom([]string{"ALPHA", "BETA", "KIND_UNSPECIFIED", "1", "2", "0"}).Draw(t, label)
	case "dbl":
		return rapid.SampledFrom([]string{"0", "1.5", "-2", "1e3", "0.1", "-0.25", "123456789.125"}).Draw(t, label)
	case "bytes":
		b := rapid.SliceOfN(rapid.Byte(), 0, 6).Draw(t, label)
		if len(b) == 0 {
			b = []byte{1}
		}
		return base64.URLEncoding.EncodeToString(b)
	}
	return GenSegment(t, label)
}

// Instantiate fills the template's wildcards and returns the path together
// with the text each top-level variable covers. "**" gets 1..maxSS segments.
//
// If other templates are given, a wildcard is often filled with the literal
// another template spells at the same segment index, so that several rules
// match the produced path.
func Instantiate(t *rapid.T, tm *ref.Template, maxSS int, others ...*ref.Template) (string, ref.Binding) {
	hint := func(idx int) []string {
		var out []string
		for _, o := range others {
			if a := o.Atoms(); idx < len(a) && a[idx].Kind == ref.Lit {
				out = append(out, a[idx].Lit)
			}
		}
		return out
	}
	atoms := tm.Atoms()
	vars := tm.Vars()
	caps := make([][]string, len(vars))
	var segs []string
	for ai, a := range atoms {
		var parts []string
		switch a.Kind {
		case ref.Lit:
			parts = []string{a.Lit}
		case ref.Star:
			kind := "str"
			if a.Var >= 0 {
				kind = FieldKind(strings.Join(vars[a.Var], "."))
			}
			if h := hint(len(segs)); kind == "str" && len(h) > 0 && rapid.Bool().Draw(t, fmt.Sprint("steer", ai)) {
				parts = []string{rapid.SampledFrom(h).Draw(t, fmt.Sprint("hint", ai))}
			} else if kind == "str" {
				parts = []string{GenSegment(t, fmt.Sprint("seg", ai))}
			} else {
				parts = []string{GenTyped(t, kind, fmt.Sprint("typed", ai))}
			}
		case ref.StarStar:
			n := rapid.IntRange(1, maxSS).Draw(t, fmt.Sprint("ss", ai))
			for i := 0; i < n; i++ {
				if h := hint(len(segs) + i); len(h) > 0 && rapid.Bool().Draw(t, fmt.Sprint("steer", ai, "_", i)) {
					parts = append(parts, rapid.SampledFrom(h).Draw(t, fmt.Sprint("hint", ai, "_", i)))
					continue
				}
				parts = append(parts, GenSegment(t, fmt.Sprint("ss", ai, "_", i)))
			}
		}
		segs = append(segs, parts...)
		if a.Var >= 0 {
			caps[a.Var] = append(caps[a.Var], parts...)
		}
	}
	p := "/" + strings.Join(segs, "/")
	if tm.Verb != "" {
		p += ":" + tm.Verb
	}
	b := make(ref.Binding, len(vars))
	for i := range vars {
		b[i] = strings.Join(caps[i], "/")
	}
	return p, b
}

func cloneSegs(segs []ref.Seg) []ref.Seg {
	out := make([]ref.Seg, len(segs))
	for i, s := range segs {
		out[i] = s
		out[i].Field = append([]string{}, s.Field...)
		out[i].Pat = cloneSegs(s.Pat)
		if s.Pat == nil {
			out[i].Pat = nil
		}
	}
	return out
}

// Derive returns a template that overlaps with tm: one segment generalised
// or specialised, a segment appended/dropped, or the verb toggled.
func Derive(t *rapid.T, tm *ref.Template, o GenOpts) *ref.Template {
	n := &ref.Template{Segs: cloneSegs(tm.Segs), Verb: tm.Verb}
	used := map[string]bool{}
	for _, v := range tm.Vars() {
		used[strings.Join(v, ".")] = true
	}
	freeField := func() (string, bool) {
		var free []string
		for _, f := range StringFields {
			if !used[f] {
				free = append(free, f)
			}
		}
		if len(free) == 0 {
			return "", false
		}
		return rapid.SampledFrom(free).Draw(t, "dfield"), true
	}
	lastIsSS := func() bool {
		a := n.Atoms()
		return len(a) > 0 && a[len(a)-1].Kind == ref.StarStar
	}
	i := rapid.IntRange(0, len(n.Segs)-1).Draw(t, "dseg")
	switch rapid.IntRange(0, 5).Draw(t, "dkind") {
	case 0: // literal -> wildcard / variable
		if n.Segs[i].Kind == ref.Lit {
			if f, ok := freeField(); ok && rapid.Bool().Draw(t, "dvar") {
				n.Segs[i] = ref.Seg{Kind: ref.Var, Field: strings.Split(f, "."), Pat: []ref.Seg{{Kind: ref.Star}}}
			} else {
				n.Segs[i] = ref.Seg{Kind: ref.Star}
			}
		}
	case 1: // wildcard / variable -> literal
		if n.Segs[i].Kind != ref.Lit && !(i == len(n.Segs)-1 && lastIsSS()) {
			n.Segs[i] = ref.Seg{Kind: ref.Lit, Lit: rapid.SampledFrom(LitPool).Draw(t, "dlit")}
		}
	case 2: // append a segment
		if !lastIsSS() && len(n.Segs) < 6 {
			if f, ok := freeField(); ok && rapid.Bool().Draw(t, "dvar") {
				n.Segs = append(n.Segs, ref.Seg{Kind: ref.Var, Field: strings.Split(f, "."), Pat: []ref.Seg{{Kind: ref.Star}}})
			} else {
				n.Segs = append(n.Segs, ref.Seg{Kind: ref.Lit, Lit: rapid.SampledFrom(LitPool).Draw(t, "dlit")})
			}
		}
	case 3: // drop the last segment
		if len(n.Segs) > 1 {
			n.Segs = n.Segs[:len(n.Segs)-1]
		}
	case 4: // toggle verb
		if n.Verb == "" {
			n.Verb = rapid.SampledFrom(VerbPool).Draw(t, "dverb")
		} else {
			n.Verb = ""
		}
	case 5: // variable with literal-prefixed pattern in place of a literal followed by anything
		if n.Segs[i].Kind == ref.Lit && i+1 < len(n.Segs) && n.Segs[i+1].Kind != ref.Lit && !(i+1 == len(n.Segs)-1 && lastIsSS()) {
			if f, ok := freeField(); ok {
				if n.Segs[i+1].Kind == ref.Var {
					break
				}
				v := ref.Seg{Kind: ref.Var, Field: strings.Split(f, "."), Pat: []ref.Seg{{Kind: ref.Lit, Lit: n.Segs[i].Lit}, {Kind: ref.Star}}}
				n.Segs = append(append(cloneSegs(n.Segs[:i]), v), n.Segs[i+2:]...)
			}
		}
	}
	p, err := ref.ParseTemplate(n.String())
	if err != nil {
		return tm
	}
	if o.StarStarOnlyLast && p.StarStarNotLast {
		return tm
	}
	return p
}

// GenOverlappingRuleSet is GenRuleSet where later templates are often
// derived from earlier ones so that several rules match the same path.
func GenOverlappingRuleSet(t *rapid.T, o GenOpts, maxMethods int) RuleSet {
	n := rapid.IntRange(1, maxMethods).Draw(t, "nmethods")
	var rs RuleSet
	var all []*ref.Template
	var allVerbs []string
	for i := 0; i < n; i++ {
		nb := rapid.SampledFrom([]int{1, 1, 1, 2, 2, 3}).Draw(t, "nbindings")
		var mr MethodRules
		for j := 0; j < nb; j++ {
			var tm *ref.Template
			verb := rapid.SampledFrom(HTTPVerbs).Draw(t, "verb")
			if len(all) > 0 && rapid.IntRange(0, 9).Draw(t, "derive") < 6 {
				bi := rapid.IntRange(0, len(all)-1).Draw(t, "base")
				tm = Derive(t, all[bi], o)
				if rapid.IntRange(0, 9).Draw(t, "sameverb") < 7 {
					verb = allVerbs[bi]
				}
			} else {
				tm = GenTemplate(t, o)
			}
			all = append(all, tm)
			allVerbs = append(allVerbs, verb)
			mr.Bindings = append(mr.Bindings, Binding{Verb: verb, Tmpl: tm.String()})
		}
		rs = append(rs, mr)
	}
	return rs
}

// InstantiateFixed fills wildcards deterministically with text that no
// pool literal equals: '*' -> "zq<i>", '**' -> "zq<i>/zr<i>", typed
// variables -> a valid constant.
func InstantiateFixed(tm *ref.Template) (string, ref.Binding) {
	atoms := tm.Atoms()
	vars := tm.Vars()
	caps := make([][]string, len(vars))
	var segs []string
	typed := map[string]string{"i32": "-7", "i64": "9007199254740993", "u64": "18446744073709551615", "bool": "true", "enum": "BETA", "dbl": "1.5", "bytes": "aGk"}
	for ai, a := range atoms {
		var parts []string
		switch a.Kind {
		case ref.Lit:
			parts = []string{a.Lit}
		case ref.Star:
			kind := "str"
			if a.Var >= 0 {
				kind = FieldKind(strings.Join(vars[a.Var], "."))
			}
			if v, ok := typed[kind]; ok {
				parts = []string{v}
			} else {
				parts = []string{fmt.Sprintf("zq%d", ai)}
			}
		case ref.StarStar:
			parts = []string{fmt.Sprintf("zq%d", ai), fmt.Sprintf("zr%d", ai)}
		}
		segs = append(segs, parts...)
		if a.Var >= 0 {
			caps[a.Var] = append(caps[a.Var], parts...)
		}
	}
	p := "/" + strings.Join(segs, "/")
	if tm.Verb != "" {
		p += ":" + tm.Verb
	}
	b := make(ref.Binding, len(vars))
	for i := range vars {
		b[i] = strings.Join(caps[i], "/")
	}
	return p, b
}
