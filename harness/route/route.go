// Package route is shared by the routing checks (C01, C02, C16, C19): a fixed
// request schema, generated rule sets, a mux builder with recording handlers
// and a reference explanation of dispatches.
package route

import (
	"context"
	"fmt"
	"io"
	"net/http"
	"strings"
	"sync"

	"google.golang.org/genproto/googleapis/api/annotations"
	"google.golang.org/grpc"
	"google.golang.org/protobuf/proto"
	"google.golang.org/protobuf/reflect/protoreflect"
	"google.golang.org/protobuf/types/descriptorpb"
	"google.golang.org/protobuf/types/dynamicpb"
	"larking.io/larking"

	"verif/drive"
	"verif/dyn"
	"verif/ref"
)

// Pkg is the proto package of the routing schema.
const Pkg = "rt"

var msgs = []*descriptorpb.DescriptorProto{
	dyn.Msg("Inner", dyn.F("id", 1, dyn.String), dyn.F("num", 2, dyn.Int64)),
	dyn.Msg("Sub", dyn.F("name", 1, dyn.String), dyn.F("inner", 2, dyn.Message, dyn.Of(".rt.Inner")), dyn.F("n", 3, dyn.Int32)),
	dyn.Msg("Req",
		dyn.F("name", 1, dyn.String),
		dyn.F("parent", 2, dyn.String),
		dyn.F("sub", 3, dyn.Message, dyn.Of(".rt.Sub")),
		dyn.F("i32", 4, dyn.Int32),
		dyn.F("i64", 5, dyn.Int64),
		dyn.F("u64", 6, dyn.Uint64),
		dyn.F("flag", 7, dyn.Bool),
		dyn.F("kind", 8, dyn.Enum, dyn.Of(".rt.Kind")),
		dyn.F("dbl", 9, dyn.Double),
		dyn.F("raw", 10, dyn.Bytes),
		dyn.F("other", 11, dyn.String),
		dyn.F("tags", 12, dyn.String, dyn.Rep()),
		dyn.F("page_size", 13, dyn.Int32),
		dyn.F("labels", 14, dyn.Message, dyn.Rep(), dyn.Of(".rt.Req.LabelsEntry")),
		dyn.F("subs", 15, dyn.Message, dyn.Rep(), dyn.Of(".rt.Req.SubsEntry")),
		dyn.F("req_only", 16, dyn.Message, dyn.Of(".rt.Sub")), // a message field the response type does not have
	),
	// the response type differs from the request type: response_body selectors resolve here, not in Req
	dyn.Msg("Rsp",
		dyn.F("name", 1, dyn.String),
		dyn.F("sub", 2, dyn.Message, dyn.Of(".rt.Sub")),
		dyn.F("rsp_only", 3, dyn.Message, dyn.Of(".rt.Sub")), // a message field the request type does not have
	),
}
var enums = []*descriptorpb.EnumDescriptorProto{dyn.EnumT("Kind", "KIND_UNSPECIFIED", "ALPHA", "BETA")}

func init() {
	// Req.labels is map<string,string>, Req.subs map<string,Sub> (field paths must not step into a map entry)
	for _, m := range msgs {
		if m.GetName() == "Req" {
			m.NestedType = append(m.NestedType,
				dyn.MapEntry("LabelsEntry", dyn.F("key", 1, dyn.String), dyn.F("value", 2, dyn.String)),
				dyn.MapEntry("SubsEntry", dyn.F("key", 1, dyn.String), dyn.F("value", 2, dyn.Message, dyn.Of(".rt.Sub"))))
		}
	}
}

// StringFields / TypedFields are the path-eligible field paths.
var StringFields = []string{"name", "parent", "sub.name", "sub.inner.id", "other"}
var TypedFields = []string{"i32", "i64", "u64", "flag", "kind", "dbl", "raw", "sub.n", "sub.inner.num"}

// Binding is one (verb, template) pair of a method.
type Binding struct {
	Verb string `json:"verb"` // GET PUT POST DELETE PATCH or a custom kind ("*" = any)
	Tmpl string `json:"tmpl"`
	Body string `json:"body,omitempty"`
	Resp string `json:"resp,omitempty"`
}

// MethodRules are the bindings of one method: the first is the primary rule,
// the rest are additional_bindings.
type MethodRules struct {
	Bindings []Binding `json:"bindings"`
}

// RuleSet holds one MethodRules per service (service i is rt.Svc<i>, its
// only method is Mth: all methods deliberately share their short name, only
// the fully-qualified names differ).
type RuleSet []MethodRules

// MethodName returns the full gRPC method name of service i.
func MethodName(i int) string { return fmt.Sprintf("/rt.Svc%d/Mth", i) }

// ServiceName returns the service name of service i.
func ServiceName(i int) string { return fmt.Sprintf("rt.Svc%d", i) }

func pattern(b Binding, r *annotations.HttpRule) {
	switch b.Verb {
	case "GET":
		r.Pattern = &annotations.HttpRule_Get{Get: b.Tmpl}
	case "PUT":
		r.Pattern = &annotations.HttpRule_Put{Put: b.Tmpl}
	case "POST":
		r.Pattern = &annotations.HttpRule_Post{Post: b.Tmpl}
	case "DELETE":
		r.Pattern = &annotations.HttpRule_Delete{Delete: b.Tmpl}
	case "PATCH":
		r.Pattern = &annotations.HttpRule_Patch{Patch: b.Tmpl}
	default:
		r.Pattern = &annotations.HttpRule_Custom{Custom: &annotations.CustomHttpPattern{Kind: b.Verb, Path: b.Tmpl}}
	}
}

// HTTPRule converts the bindings to a google.api.HttpRule.
func (m MethodRules) HTTPRule() *annotations.HttpRule {
	if len(m.Bindings) == 0 {
		return nil
	}
	mk := func(b Binding) *annotations.HttpRule {
		r := &annotations.HttpRule{Body: b.Body, ResponseBody: b.Resp}
		pattern(b, r)
		return r
	}
	r := mk(m.Bindings[0])
	for _, b := range m.Bindings[1:] {
		r.AdditionalBindings = append(r.AdditionalBindings, mk(b))
	}
	return r
}

// Call is one recorded handler invocation.
type Call struct {
	Method string
	Msg    proto.Message
}

// Recorder collects handler invocations.
type Recorder struct {
	mu    sync.Mutex
	Calls []Call
}

func (r *Recorder) add(c Call) { r.mu.Lock(); r.Calls = append(r.Calls, c); r.mu.Unlock() }

// Take returns and clears the recorded calls.
func (r *Recorder) Take() []Call {
	r.mu.Lock()
	defer r.mu.Unlock()
	c := r.Calls
	r.Calls = nil
	return c
}

// World compiles the schema with one service per element of rs. If
// annotate is false the rules are not attached as annotations (used when
// they are supplied through a service config instead).
func World(rs RuleSet, annotate bool) *dyn.World {
	rules := make([]*annotations.HttpRule, len(rs))
	for i, mr := range rs {
		if annotate {
			rules[i] = mr.HTTPRule()
		}
	}
	return WorldRules(rules)
}

// WorldRules compiles one single-method service per rule (nil = no
// annotation).
func WorldRules(rules []*annotations.HttpRule) *dyn.World {
	var svcs []*descriptorpb.ServiceDescriptorProto
	for i, r := range rules {
		ms := dyn.MethodSpec{Name: "Mth", In: ".rt.Req", Out: ".rt.Rsp", Rule: r}
		if i%2 == 1 {
			// every other service declares a streaming method (with a rule of its own on a literal no
			// generated template spells, POST /rt-feed/svcN/{name}) BEFORE the unary one, as real proto files do: the position of a method
			// among its service's methods differs from its position among the unary ones
			feed := dyn.MethodSpec{Name: "Feed", In: ".rt.Req", Out: ".rt.Rsp", ClientStream: true, ServerStream: true,
				Rule: &annotations.HttpRule{Pattern: &annotations.HttpRule_Post{Post: FeedPath(i) + "/{name}"}, Body: "*"}}
			svcs = append(svcs, dyn.Svc(fmt.Sprintf("Svc%d", i), feed, ms))
			continue
		}
		svcs = append(svcs, dyn.Svc(fmt.Sprintf("Svc%d", i), ms))
	}
	w, err := dyn.NewWorld(dyn.File("rt.proto", Pkg, msgs, enums, svcs))
	if err != nil {
		panic(err)
	}
	return w
}

// FeedPath is the literal prefix of the rule of service i's streaming method Feed (odd i only).
func FeedPath(i int) string { return fmt.Sprintf("/rt-feed/svc%d", i) }

// Built is a mux with the services of a rule set registered.
type Built struct {
	Mux      *larking.Mux
	World    *dyn.World
	Rec      *Recorder
	Accepted []bool   // per service: registration succeeded
	Errs     []string // per service: registration error text
	Panic    any      // panic during registration, if any
	Stack    string
}

// Register registers service i of w on mux with an echo handler recording
// into rec. Panics are recovered and returned.
func Register(mux *larking.Mux, w *dyn.World, rec *Recorder, i int) (err error, pnc any, stack string) {
	sd := w.ServiceDesc(ServiceName(i), func(ctx context.Context, fm string, req *dynamicpb.Message) (proto.Message, error) {
		rec.add(Call{Method: fm, Msg: proto.Clone(req)})
		// the reply mirrors what the two types share (name, sub)
		rd := w.MsgDesc(Pkg + ".Rsp")
		rsp := dynamicpb.NewMessage(rd)
		q := req.ProtoReflect()
		if f := q.Descriptor().Fields().ByName("name"); q.Has(f) {
			rsp.Set(rd.Fields().ByName("name"), q.Get(f))
		}
		if f := q.Descriptor().Fields().ByName("sub"); q.Has(f) {
			proto.Merge(rsp.Mutable(rd.Fields().ByName("sub")).Message().Interface(), q.Get(f).Message().Interface())
		}
		// (rsp_only stays empty: larking re-encodes a dynamicpb reply, whose field order on the
		// wire is deliberately unstable, and several checks compare response bytes)
		return rsp, nil
	}, func(full string, in, out protoreflect.MessageDescriptor, ss grpc.ServerStream) error {
		// the Feed methods: record the call like any other, answer nothing
		m := dynamicpb.NewMessage(in)
		if err := ss.RecvMsg(m); err != nil && err != io.EOF {
			return err
		}
		rec.add(Call{Method: full, Msg: m})
		return nil
	})
	defer func() {
		if p := recover(); p != nil {
			pnc = p
			stack = drive.StackNow()
		}
	}()
	return mux.VerifRegisterService(sd, nil), nil, ""
}

// Build registers the services in the given order (nil = natural order).
func Build(rs RuleSet, order []int, opts ...larking.MuxOption) *Built {
	w := World(rs, true)
	return BuildWorld(w, len(rs), order, opts...)
}

// BuildWorld is Build over an already compiled world.
func BuildWorld(w *dyn.World, n int, order []int, opts ...larking.MuxOption) *Built {
	opts = append([]larking.MuxOption{larking.FilesOption(w.Files)}, opts...)
	mux, err := larking.NewMux(opts...)
	if err != nil {
		panic(err)
	}
	b := &Built{Mux: mux, World: w, Rec: &Recorder{}, Accepted: make([]bool, n), Errs: make([]string, n)}
	if order == nil {
		for i := 0; i < n; i++ {
			order = append(order, i)
		}
	}
	for _, i := range order {
		err, p, st := Register(mux, w, b.Rec, i)
		if p != nil {
			b.Panic, b.Stack = p, st
			b.Errs[i] = fmt.Sprintf("panic: %v", p)
			continue
		}
		if err != nil {
			b.Errs[i] = err.Error()
			continue
		}
		b.Accepted[i] = true
	}
	return b
}

// Outcome of one request.
type Outcome struct {
	Status int
	Method string // "" if no handler ran
	Msg    proto.Message
	Panic  string
	Body   string
}

func (o Outcome) String() string {
	if o.Panic != "" {
		return "panic:" + o.Panic
	}
	if o.Method == "" {
		return fmt.Sprintf("status=%d", o.Status)
	}
	return fmt.Sprintf("status=%d method=%s msg={%v}", o.Status, o.Method, o.Msg)
}

// Equal compares two outcomes.
func (o Outcome) Equal(p Outcome) bool {
	if o.Status != p.Status || o.Method != p.Method || o.Panic != p.Panic {
		return false
	}
	if (o.Msg == nil) != (p.Msg == nil) {
		return false
	}
	if o.Msg == nil {
		return true
	}
	// The two messages may come from different (structurally identical)
	// compiled worlds, so compare the deterministic wire form.
	mo := proto.MarshalOptions{Deterministic: true}
	x, _ := mo.Marshal(o.Msg)
	y, _ := mo.Marshal(p.Msg)
	return string(x) == string(y)
}

// Do issues a body-less request.
func (b *Built) Do(verb, path, rawQuery string) Outcome { return b.DoTarget(verb, path, "", rawQuery) }

// DoTarget serves the request with the client's own spelling of the path
// (rawTarget, percent-encoded) when one is given and decodes to path.
func (b *Built) DoTarget(verb, path, rawTarget, rawQuery string) Outcome {
	b.Rec.Take()
	req := drive.Request(verb, path, rawQuery, http.Header{}, nil, 0)
	if rawTarget != "" {
		if r2, ok := drive.RequestTarget(verb, rawTarget, rawQuery, http.Header{}, nil, 0); ok && (r2.URL.Path == path || r2.URL.Path == path+"/") {
			req = r2
		}
	}
	res := drive.Serve(b.Mux, req)
	calls := b.Rec.Take()
	o := Outcome{Status: res.Rec.Code, Body: res.Rec.Body.String()}
	if res.Panic != nil {
		o.Panic = res.PanicSig() + ": " + fmt.Sprint(res.Panic)
	}
	if len(calls) > 0 {
		o.Method, o.Msg = calls[0].Method, calls[0].Msg
	}
	return o
}

// DoBody serves the request with a JSON body (only status and panic are of interest to its callers).
func (b *Built) DoBody(verb, path, body string) Outcome {
	b.Rec.Take()
	hdr := http.Header{}
	hdr.Set("Content-Type", "application/json")
	res := drive.Serve(b.Mux, drive.Request(verb, path, "", hdr, strings.NewReader(body), int64(len(body))))
	calls := b.Rec.Take()
	o := Outcome{Status: res.Rec.Code, Body: res.Rec.Body.String()}
	if res.Panic != nil {
		o.Panic = res.PanicSig() + ": " + fmt.Sprint(res.Panic)
	}
	if len(calls) > 0 {
		o.Method, o.Msg = calls[0].Method, calls[0].Msg
	}
	return o
}

// ReqDesc returns the request message descriptor.
func ReqDesc(w *dyn.World) protoreflect.MessageDescriptor { return w.MsgDesc("rt.Req") }

// RspDesc is the response type (it shares name and sub with the request type).
func RspDesc(w *dyn.World) protoreflect.MessageDescriptor { return w.MsgDesc("rt.Rsp") }

// VerbMatches reports whether a rule verb (kind) accepts a request verb.
// HTTP method tokens are case-sensitive: a rule written with one of the five google.api.http
// pattern fields (get, put, post, delete, patch) carries exactly the upper-case token. For custom
// kinds the spelling a request must use is the implementation's choice (larking stores them in
// upper case), so any case is admitted there.
func VerbMatches(ruleVerb, reqVerb string) bool {
	if ruleVerb == "*" {
		return true
	}
	switch up := strings.ToUpper(ruleVerb); up {
	case "GET", "PUT", "POST", "DELETE", "PATCH":
		return up == reqVerb
	}
	return strings.EqualFold(ruleVerb, reqVerb)
}

// Expected builds the messages a binding's captures may denote: every path
// variable set from its text and nothing else. An empty result means some
// capture is not convertible.
func Expected(md protoreflect.MessageDescriptor, vars [][]string, b ref.Binding) []proto.Message {
	cands := []proto.Message{dynamicpb.NewMessage(md)}
	for i, fp := range vars {
		fds := ref.ResolvePath(md, fp)
		if fds == nil {
			return nil
		}
		leaf := fds[len(fds)-1]
		var readings []proto.Message
		if leaf.Kind() == protoreflect.StringKind && !leaf.IsList() {
			m := dynamicpb.NewMessage(md)
			ref.SetPath(m.ProtoReflect(), fds, protoreflect.ValueOfString(b[i]))
			readings = []proto.Message{m}
		} else {
			readings = ref.Referee(md, fds, b[i])
		}
		if len(readings) == 0 {
			return nil
		}
		var next []proto.Message
		for _, c := range cands {
			for _, r := range readings {
				m := proto.Clone(c)
				// later variables overwrite earlier ones on the same field
				v, _ := ref.GetPath(r.ProtoReflect(), fds)
				ref.SetPath(m.ProtoReflect(), fds, v)
				next = append(next, m)
			}
		}
		cands = next
	}
	return cands
}

// AllBindings lists every (service, binding) of the rule set including the
// implicit "/pkg.Svc/Method" binding with kind "*".
type Owned struct {
	Svc  int
	B    Binding
	T    *ref.Template
	Impl bool
}

// Owned returns the bindings of accepted services.
func (rs RuleSet) Owned(accepted []bool) []Owned {
	var out []Owned
	for i, mr := range rs {
		if accepted != nil && !accepted[i] {
			continue
		}
		for _, b := range mr.Bindings {
			t, err := ref.ParseTemplate(b.Tmpl)
			if err != nil {
				continue
			}
			out = append(out, Owned{Svc: i, B: b, T: t})
		}
		it, _ := ref.ParseTemplate(MethodName(i))
		out = append(out, Owned{Svc: i, B: Binding{Verb: "*", Tmpl: MethodName(i), Body: "*"}, T: it, Impl: true})
	}
	return out
}

// Normalisations of a request path that larking documents: leading slash
// added, one trailing slash removed.
func PathForms(p string) []string {
	forms := []string{p}
	q := p
	if !strings.HasPrefix(q, "/") {
		q = "/" + q
	}
	q = strings.TrimSuffix(q, "/")
	if q != p {
		forms = append(forms, q)
	}
	return forms
}

func verbsOverlap(a, b string) bool {
	return a == "*" || b == "*" || strings.EqualFold(a, b)
}

// ConflictFree drops every method that collides with an earlier one on the
// same trie position and overlapping verb, and methods whose own bindings
// overlap each other.
func ConflictFree(rs RuleSet) RuleSet {
	type pos struct{ key, verb string }
	var seen []pos
	var out RuleSet
	for _, mr := range rs {
		ok := true
		var mine []pos
		for _, b := range mr.Bindings {
			tm, err := ref.ParseTemplate(b.Tmpl)
			if err != nil {
				ok = false
				break
			}
			p := pos{tm.PositionKey(), b.Verb}
			for _, s := range seen {
				if s.key == p.key && verbsOverlap(s.verb, p.verb) {
					ok = false
				}
			}
			for _, q := range mine {
				if q.key == p.key && verbsOverlap(q.verb, p.verb) {
					ok = false
				}
			}
			mine = append(mine, p)
		}
		if !ok {
			continue
		}
		seen = append(seen, mine...)
		out = append(out, mr)
	}
	return out
}
