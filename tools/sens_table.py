#!/usr/bin/env python3
"""Prints the sensitivity tables for DESIGN.md section 7 from seeded/results.json, seeded/*/meta.json and mutants/results.json."""
import json, os
seeds = json.load(open("/verif/seeded/results.json"))
print("| seeded change (independent sub-agent) | property | needs, in order to manifest | caught by (quick tier) |")
print("|---|---|---|---|")
for name in sorted(seeds):
    r = seeds[name]; meta = json.load(open(f"/verif/seeded/{name}/meta.json"))
    caught = [f"{p} ({v['secs']:.0f} s)" for p, v in r.get("checks", {}).items() if v["caught"]]
    missed = [p for p, v in r.get("checks", {}).items() if not v["caught"]]
    cell = ", ".join(caught) if caught else "**not caught**"
    if missed and caught:
        cell += "; not by " + ", ".join(missed)
    ok = r.get("demo_passes_without_change") and r.get("suite_passes_with_change") and r.get("demo_fails_with_change")
    print(f"| `{name}` | {meta['property']} | {meta['needs_to_manifest']} | {cell}{'' if ok else ' (confirmation incomplete)'} |")
print()
mut = json.load(open("/verif/mutants/results.json"))
print("| hand-written mutant | repo suite | killed by | survived |")
print("|---|---|---|---|")
for name in sorted(mut):
    r = mut[name]
    if r.get("status") != "ok":
        print(f"| `{name}` | - | {r.get('status')} | |"); continue
    k = ", ".join(f"{x['prop']} ({x['secs']:.0f} s)" for x in r["killed_by"]) or "-"
    s = ", ".join(x["prop"] for x in r["survived"]) or "-"
    print(f"| `{name}` | {r['suite']} | {k} | {s} |")
