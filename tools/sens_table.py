#!/usr/bin/env python3
"""Regenerates the sensitivity tables of DESIGN.md section 7 (between the markers) from seeded/results.json,
seeded/*/meta.json and mutants/results.json. Prints a summary."""
import json, os, re

def between(d, name, body):
    a, b = f"<!-- {name}:begin -->", f"<!-- {name}:end -->"
    if a not in d:
        print("marker missing:", name); return d
    return d[:d.index(a) + len(a)] + "\n" + body + "\n" + d[d.index(b):]

seeds = json.load(open("/verif/seeded/results.json"))
rows = ["| seeded change | round | what it needs in order to manifest | caught by (quick tier, final checks) | at first evaluation |", "|---|---|---|---|---|"]
tot = caught_now = first = 0
per_round = {}
for name in sorted(n for n in os.listdir("/verif/seeded") if os.path.isdir(f"/verif/seeded/{n}")):
    meta = json.load(open(f"/verif/seeded/{name}/meta.json"))
    r = seeds.get(name, {})
    m = re.search(r"-r(\d+)-", name); rnd = int(m.group(1)) if m else 1
    caught = [f"{p} ({v['secs']:.0f} s)" for p, v in r.get("checks", {}).items() if v["caught"]]
    missed = [p for p, v in r.get("checks", {}).items() if not v["caught"]]
    cell = ", ".join(caught) if caught else "**not caught**"
    if meta.get("not_caught_reason") and not caught:
        cell = "not caught - " + meta["not_caught_reason"]
    if meta.get("superseded_by_fix"):
        cell = f"superseded: fix `{meta['superseded_by_fix']}` removed the defect class, the change is harmless on (and does not apply to) the final tree"
        caught = ["superseded"]
    if missed and caught:
        cell += "; not by " + ", ".join(missed)
    ok = r.get("demo_passes_without_change") and r.get("suite_passes_with_change") and r.get("demo_fails_with_change")
    if not ok:
        cell += " (confirmation incomplete)"
    needs = meta["needs_to_manifest"]
    why = ""
    k = re.search(r"[;(]\s*(initially )?missed", needs)
    if k:
        needs, why = needs[:k.start()].strip(), needs[k.start():].strip(" ;()")
    fm = "missed - " + why if meta.get("initially_missed") else "caught"
    rows.append(f"| `{name}` | {rnd} | {needs} | {cell} | {fm} |")
    tot += 1; caught_now += bool(caught); first += not meta.get("initially_missed")
    pr = per_round.setdefault(rnd, [0, 0]); pr[0] += 1; pr[1] += not meta.get("initially_missed")
d = open("/verif/DESIGN.md").read()
d = between(d, "seeds-table", "\n".join(rows))
summary = f"{tot} seeded changes; {caught_now} caught by the final checks in the quick tier; {first} were caught by the check as it stood when the change arrived (" + ", ".join(f"round {k}: {v[1]}/{v[0]}" for k, v in sorted(per_round.items())) + ")."
d = between(d, "seeds-summary", summary)

mut = json.load(open("/verif/mutants/results.json"))
rows = ["| hand-written mutant | repo suite | killed by | survived |", "|---|---|---|---|"]
nk = 0
for name in sorted(mut):
    r = mut[name]
    if r.get("status") != "ok":
        rows.append(f"| `{name}` | - | {r.get('status')} | |"); continue
    k = ", ".join(f"{x['prop']} ({x['secs']:.0f} s)" for x in r["killed_by"]) or "-"
    s = ", ".join(x["prop"] for x in r["survived"]) or "-"
    nk += bool(r["killed_by"])
    rows.append(f"| `{name}` | {r['suite']} | {k} | {s} |")
d = between(d, "mutants-table", "\n".join(rows))
d = between(d, "mutants-summary", f"{len(mut)} hand-written mutants, {nk} killed in the quick tier.")
open("/verif/DESIGN.md", "w").write(d)
print(summary); print(len(mut), "mutants,", nk, "killed")
