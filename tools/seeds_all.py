#!/usr/bin/env python3
"""Re-evaluates every seeded change under /verif/seeded against the CURRENT /repo HEAD and the CURRENT
checks: applies patch.diff in a scratch worktree, confirms (suite passes, demo fails with / passes without the
change), runs the quick tier of the property's check (and of any extra checks listed in meta.caught_by) with
VERIF_REPO. Writes seeded/results.json. usage: tools/seeds_all.py [name-substring...]"""
import json, os, shutil, subprocess, sys, time
# SEEDS_SHARD=i/n evaluates every n-th seed (by sorted position) in a worktree and a results file of its
# own (seeded/results.<i>.json); tools/seeds_merge.py merges the shard files into seeded/results.json.
SHARD = os.environ.get("SEEDS_SHARD", "")
SI, SN = (int(x) for x in SHARD.split("/")) if SHARD else (0, 1)
WT = "/tmp/verif-seed-wt" + (str(SI) if SHARD else "") + os.environ.get("SEEDS_WT_SUFFIX", "")
ROOT = os.path.dirname(os.path.dirname(os.path.abspath(__file__)))
ENV = dict(os.environ, GOFLAGS="-mod=mod", GOPROXY="off", GOSUMDB="off", GOTOOLCHAIN="local")
def sh(cmd, cwd=None, env=None):
    p = subprocess.run(cmd, shell=True, cwd=cwd, env=env or ENV, stdout=subprocess.PIPE, stderr=subprocess.STDOUT, text=True, errors="replace")
    return p.returncode, p.stdout
sh(f"git -C /repo worktree remove --force {WT}")
rc, out = sh(f"git -C /repo worktree add -q --detach {WT} HEAD"); assert rc == 0, out
res_path = f"{ROOT}/seeded/results.json" if not SHARD else f"{ROOT}/seeded/results.{SI}.json"
results = json.load(open(res_path)) if os.path.exists(res_path) else {}
names = [n for n in sorted(os.listdir(f"{ROOT}/seeded")) if os.path.isdir(f"{ROOT}/seeded/{n}")]
for pos, name in enumerate(names):
    d = f"{ROOT}/seeded/{name}"
    if pos % SN != SI or (sys.argv[1:] and not any(s in name for s in sys.argv[1:])):
        continue
    meta = json.load(open(f"{d}/meta.json"))
    if meta.get("superseded_by_fix"):
        results[name] = {"status": "superseded by fix " + meta["superseded_by_fix"]}; print(name, "superseded"); continue
    sh("git checkout -q -- . ; rm -f larking/seed_demo_test.go", cwd=WT)
    shutil.copy(f"{d}/seed_demo_test.go", f"{WT}/larking/seed_demo_test.go")
    rc0, _ = sh("go test -vet=off -count=1 ./larking/ -run TestSeedDemo", cwd=WT)
    rc, out = sh(f"git apply {d}/patch.diff", cwd=WT)
    if rc != 0:
        results[name] = {"status": "patch does not apply to current HEAD", "out": out[-300:]}; print(name, "PATCH DOES NOT APPLY"); continue
    rc1, _ = sh("go build ./... && go test -vet=off -count=1 ./larking/ -skip TestSeedDemo", cwd=WT)
    rc2, _ = sh("go test -vet=off -count=1 ./larking/ -run TestSeedDemo", cwd=WT)
    r = {"demo_passes_without_change": rc0 == 0, "suite_passes_with_change": rc1 == 0, "demo_fails_with_change": rc2 != 0, "checks": {}}
    props = sorted(set([meta["property"]] + meta.get("caught_by", [])))
    for p in props:
        t0 = time.time()
        rc, out = sh(f"python3 {ROOT}/run.py {p} quick", cwd=ROOT, env=dict(ENV, VERIF_REPO=WT))
        sig = [l.strip()[:200] for l in out.split("\n") if "sig=" in l or "DATA RACE" in l][:1]
        r["checks"][p] = {"rc": rc, "caught": rc == 1, "secs": round(time.time() - t0, 1), "first": sig}
    results[name] = r
    print(name, {p: v["caught"] for p, v in r["checks"].items()}, "confirm:", r["demo_passes_without_change"], r["suite_passes_with_change"], r["demo_fails_with_change"], flush=True)
    json.dump(results, open(res_path, "w"), indent=1)
sh(f"git -C /repo worktree remove --force {WT}")
