#!/usr/bin/env python3
"""usage: tools/seed_round.py <prefix e.g. seed13> [ids...] - creates one scratch worktree /tmp/<prefix>-CNN of /repo HEAD per
property and writes /tmp/<prefix>-out/CNN/prompt.txt (property text + sites earlier seeds already used). The agents get
nothing from /verif. Remove the worktrees afterwards: git -C /repo worktree remove --force /tmp/<prefix>-CNN"""
import json, os, subprocess, sys
ROOT = os.path.dirname(os.path.dirname(os.path.abspath(__file__)))
pfx = sys.argv[1]; ids = sys.argv[2:] or [f"C{i:02d}" for i in range(1, 21)]
t = open(f"{ROOT}/tools/seed_prompt.tmpl").read()
props = {json.loads(l)["id"]: json.loads(l) for l in open(f"{ROOT}/properties.jsonl")}
prev = {}
for n in sorted(os.listdir(f"{ROOT}/seeded")):
    p = f"{ROOT}/seeded/{n}/patch.diff"
    if os.path.exists(p):
        files = sorted(set(l[6:].strip() for l in open(p) if l.startswith("+++ b/")))
        funcs = [l.split("@@")[-1].strip() for l in open(p) if l.startswith("@@")]
        prev.setdefault(n[:3], []).append((n, files, funcs))
for id in ids:
    wt = f"/tmp/{pfx}-{id}"; out = f"/tmp/{pfx}-out/{id}"
    subprocess.run(["git", "-C", "/repo", "worktree", "add", "-q", "--detach", wt, "HEAD"], check=True)
    os.makedirs(out, exist_ok=True)
    o = props[id]
    p = f"{o['id']} - {o['title']}\n\n{o['statement']}\n\nQuantified {o['quantifier']['text']}\n"
    if prev.get(id):
        p += "\nEarlier, independent attempts at this task already used the following sites. Choose a DIFFERENT site and a different mechanism (preferably a different clause of the property, a different protocol or code path), so that your change is unrelated to all of them:\n"
        for n, files, funcs in prev[id]:
            p += f"  - {n[4:]}  ({', '.join(files)}: {'; '.join(funcs)[:160]})\n"
    open(f"{out}/prompt.txt", "w").write(t.replace("@PFX@", pfx).replace("@ID@", id).replace("@PROPERTY@", p))
    print(id, len(p))
