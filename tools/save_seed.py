#!/usr/bin/env python3
"""usage: save_seed.py <ID> <name> <caught_by(comma or '-')> <needs...>  — stores /tmp/seed-out/<ID> as /verif/seeded/<name>/"""
import json, os, shutil, subprocess, sys
ID, name, caught = sys.argv[1], sys.argv[2], sys.argv[3]
needs = " ".join(sys.argv[4:])
PFX = os.environ.get("SEEDPFX", "seed")
src = f"/tmp/{PFX}-out/{ID}"; dst = f"/verif/seeded/{name}"
os.makedirs(dst, exist_ok=True)
# patch from the worktree itself (authoritative), tracked files only
# the deliverable is authoritative (worktree state may have been disturbed: git stash is shared between worktrees)
shutil.copy(f"{src}/patch.diff", f"{dst}/patch.diff")
shutil.copy(f"{src}/seed_demo_test.go", f"{dst}/seed_demo_test.go")
meta_txt = open(f"{src}/meta.txt").read() if os.path.exists(f"{src}/meta.txt") else ""
base = subprocess.run(["git", "-C", "/repo", "rev-parse", "--short", "HEAD"], capture_output=True, text=True).stdout.strip()
meta = {
    "property": ID[:3],
    "base_commit": base,
    "author": "independent sub-agent given only the property text and a scratch worktree",
    "needs_to_manifest": needs,
    "author_notes": meta_txt,
    "confirmed_by_me": ["suite passes with the change (go test ./larking/ -skip TestSeedDemo)", "TestSeedDemo fails with the change", "TestSeedDemo passes without it"],
    "ran": [f"VERIF_REPO=/tmp/{PFX}-{ID} python3 run.py <prop> quick (tools/eval_seed.sh); re-run against the current HEAD by tools/seeds_all.py"],
    "caught_by": [] if caught == "-" else caught.split(","),
    "initially_missed": "missed" in needs.lower(),
}
json.dump(meta, open(f"{dst}/meta.json", "w"), indent=1)
print("saved", dst)
