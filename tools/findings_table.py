#!/usr/bin/env python3
"""Regenerates the table of DESIGN.md section 4 (between the markers) from /repo's fix: commits and KNOWN_FINDINGS.txt."""
import re, subprocess, collections
log = subprocess.run(["git", "-C", "/repo", "log", "--reverse", "--format=%h %s", "60a3272..HEAD"], capture_output=True, text=True).stdout.splitlines()
by = collections.defaultdict(list)
for l in open("/verif/KNOWN_FINDINGS.txt"):
    m = re.match(r"fixed: property=(C\d+) ([0-9a-f]{7})", l)
    if m and m.group(1) not in by[m.group(2)]:
        by[m.group(2)].append(m.group(1))
rows = ["| commit | found by | defect (commit subject) |", "|---|---|---|"]
missing = []
for l in log:
    h, s = l.split(" ", 1)
    if not s.startswith("fix:"):
        continue
    if h not in by:
        missing.append(h)
    rows.append(f"| `{h}` | {', '.join(sorted(by.get(h, ['?'])))} | {s[4:].strip()} |")
table = "\n".join(rows)
d = open("/verif/DESIGN.md").read()
a, b = "<!-- findings-table:begin -->", "<!-- findings-table:end -->"
if a in d:
    d = d[:d.index(a) + len(a)] + "\n" + table + "\n" + d[d.index(b):]
    open("/verif/DESIGN.md", "w").write(d)
print(len(rows) - 2, "fix commits; without a fixed: entry:", missing)
unk = [h for h in by if not any(l.startswith(h) for l in log)]
print("fixed: entries naming unknown commits:", unk)
