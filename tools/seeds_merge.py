#!/usr/bin/env python3
"""Merges seeded/results.<i>.json (written by sharded tools/seeds_all.py runs) into seeded/results.json."""
import glob, json, os
res = json.load(open("/verif/seeded/results.json")) if os.path.exists("/verif/seeded/results.json") else {}
for f in sorted(glob.glob("/verif/seeded/results.[0-9]*.json")):
    res.update(json.load(open(f)))
    os.remove(f)
json.dump(res, open("/verif/seeded/results.json", "w"), indent=1)
print(len(res), "entries")
