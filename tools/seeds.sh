#!/bin/bash
# usage: [SEEDS="0 1 2"] tools/seeds.sh <tier> <prop>... ; default seeds 0 1 2 7 12345 11 23. Runs from any checkout.
root=$(cd "$(dirname "$0")/.." && pwd)
tier=$1; shift
for p in "$@"; do for s in ${SEEDS:-0 1 2 7 12345 11 23}; do
  out=$(VERIF_SEED=$s python3 $root/run.py $p $tier 2>&1); rc=$?
  echo "$p seed=$s rc=$rc $(echo "$out" | grep -E "^$p " | head -1)"
  if [ $rc -ne 0 ]; then echo "$out" | grep -E "sig=|VIOLATION|BROKEN" | cut -c1-400 | sort | uniq -c | head -5; fi
done; done
