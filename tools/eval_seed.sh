#!/bin/bash
# usage: tools/eval_seed.sh <ID> [tier] [prop...]
# Uses /tmp/seed-out/<ID>/patch.diff + seed_demo_test.go as the authoritative deliverable, applied to a
# clean checkout of the worktree /tmp/seed-<ID> (no git stash: the stash is shared between worktrees).
# 1. confirms: suite passes with the change, demo fails with it, demo passes without it
# 2. runs the checks of the given properties (default: <ID>) against the worktree
ID=$1; TIER=${2:-quick}; shift; shift; PROPS=${@:-$ID}
PFX=${SEEDPFX:-seed}; WT=/tmp/$PFX-$ID; OUT=/tmp/$PFX-out/$ID
export GOFLAGS=-mod=mod GOPROXY=off GOSUMDB=off GOTOOLCHAIN=local
cd $WT || exit 2
git checkout -q -- . ; rm -f larking/seed_demo_test.go; git checkout -q --detach $(git -C /repo rev-parse HEAD); cp $OUT/seed_demo_test.go larking/seed_demo_test.go
c=$(go test -vet=off -count=1 ./larking/ -run TestSeedDemo 2>&1 | tail -1); echo "demo without change: $c"
git apply $OUT/patch.diff || { echo "PATCH DOES NOT APPLY"; exit 2; }
echo "== $ID: $(git diff --stat | tail -1)"
a=$(go build ./... 2>&1 && go test -vet=off -count=1 ./larking/ -skip TestSeedDemo 2>&1 | tail -1); echo "suite with change:   $a"
b=$(go test -vet=off -count=1 ./larking/ -run TestSeedDemo 2>&1 | tail -1); echo "demo with change:    $b"
cd /verif
for p in $PROPS; do
  out=$(VERIF_REPO=$WT python3 run.py $p $TIER 2>&1); rc=$?
  echo "check $p $TIER rc=$rc: $(echo "$out" | grep -E "^$p " | head -1)"
  echo "$out" | grep -E "sig=|DATA RACE" | sed 's/^ *//' | cut -c1-260 | sort | uniq -c | sort -rn | head -4
done
