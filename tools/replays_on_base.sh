#!/bin/bash
# Runs every committed replay against the hooks-only tree (no fix: commits) to
# confirm each one fails there. Usage: tools/replays_on_base.sh [property...]
set -u
BASE=${BASE_COMMIT:-60a3272}
WT=/tmp/verif-base-wt
git -C /repo worktree remove --force $WT 2>/dev/null
git -C /repo worktree add -q --detach $WT $BASE || exit 2
cd /verif
props=${@:-$(ls replays | grep -v out)}
for p in $props; do
  for f in replays/$p/*.json; do
    [ -e "$f" ] || continue
    out=$(VERIF_REPO=$WT python3 run.py $p replay $f 2>&1 | tail -1)
    echo "$p $(basename $f): $out"
  done
done
git -C /repo worktree remove --force $WT
