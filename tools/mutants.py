#!/usr/bin/env python3
"""Applies each hand-written mutant (mutants/specs.py) to a scratch worktree of /repo, checks that it
compiles and that the repo's own suite still passes, then runs the quick tier of the expected properties
against it (VERIF_REPO). Writes mutants/results.json. usage: tools/mutants.py [name-substring...]"""
import json, os, subprocess, sys, time
sys.path.insert(0, "/verif/mutants")
from specs import M
WT = "/tmp/verif-mut-wt"
ENV = dict(os.environ, GOFLAGS="-mod=mod", GOPROXY="off", GOSUMDB="off", GOTOOLCHAIN="local")
def sh(cmd, cwd=None, env=None, timeout=1800):
    p = subprocess.run(cmd, shell=True, cwd=cwd, env=env or ENV, stdout=subprocess.PIPE, stderr=subprocess.STDOUT, text=True, errors="replace", timeout=timeout)
    return p.returncode, p.stdout
sh(f"git -C /repo worktree remove --force {WT}")
rc, out = sh(f"git -C /repo worktree add -q --detach {WT} HEAD")
assert rc == 0, out
res_path = "/verif/mutants/results.json"
results = json.load(open(res_path)) if os.path.exists(res_path) else {}
sel = sys.argv[1:]
for name, props, file, old, new in M:
    if sel and not any(s in name for s in sel):
        continue
    sh("git checkout -q -- .", cwd=WT)
    src = open(f"{WT}/{file}").read()
    if old not in src:
        results[name] = {"status": "does-not-apply"}; print(name, "DOES NOT APPLY"); continue
    open(f"{WT}/{file}", "w").write(src.replace(old, new, 1))
    rc, out = sh("go build ./... && go vet -vet=off ./larking/ >/dev/null 2>&1; go build ./...", cwd=WT)
    if rc != 0:
        results[name] = {"status": "does-not-compile", "out": out[-400:]}; print(name, "does not compile"); continue
    rc, out = sh("go test -vet=off -count=1 ./larking/", cwd=WT)
    suite = "passes" if rc == 0 else "FAILS"
    r = {"status": "ok", "suite": suite, "expected": props, "killed_by": [], "survived": []}
    for p in props:
        t0 = time.time()
        rc, out = sh(f"VERIF_REPO={WT} python3 /verif/run.py {p} quick", cwd="/verif", env=dict(ENV, VERIF_REPO=WT))
        sig = [l.strip()[:160] for l in out.split("\n") if "sig=" in l][:1]
        if rc == 1:
            r["killed_by"].append({"prop": p, "secs": round(time.time() - t0, 1), "sig": sig})
        else:
            r["survived"].append({"prop": p, "rc": rc})
    results[name] = r
    print(name, "suite", suite, "killed by", [k["prop"] for k in r["killed_by"]], "survived", [k["prop"] for k in r["survived"]], flush=True)
    json.dump(results, open(res_path, "w"), indent=1)
sh(f"git -C /repo worktree remove --force {WT}")
