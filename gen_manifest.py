#!/usr/bin/env python3
"""Regenerates MANIFEST.json from props.py (single source of truth)."""
import json, os, subprocess, sys
ROOT = os.path.dirname(os.path.abspath(__file__))
sys.path.insert(0, ROOT)
from props import PROPS, NOT_APPLICABLE, HOOK_COMMITS

all_ids = [json.loads(l)["id"] for l in open(os.path.join(ROOT, "properties.jsonl"))]
checks = []
for pid in all_ids:
    if pid not in PROPS:
        continue
    c = PROPS[pid]
    checks.append({
        "property_id": pid,
        "quick_cmd": "python3 run.py %s quick" % pid,
        "thorough_cmd": "python3 run.py %s thorough" % pid,
        "evidence_file": "/verif/evidence/%s.json" % pid,
        "replay_cmd_template": "python3 run.py %s replay {path}" % pid,
        "engine": "rapid-harness",
        "level_claimed": {
            "category": "exploration",
            "text": c["level_text"],
            "design_ref": "DESIGN.md section 3, %s" % pid,
        },
        "level_note": c["level_note"],
        "technique": c["technique"],
    })
na = [{"property_id": pid, "reason": NOT_APPLICABLE.get(pid, "no check built yet in this round; see DESIGN.md section 3 for the planned generator and oracle")}
      for pid in all_ids if pid not in PROPS]
m = {
    "version": 1,
    "setup_cmd": "python3 run.py build-all",
    "hooks": {
        "guard": "go build tag 'verif' (file larking/verif_hooks.go, //go:build verif)",
        "enable": "go test -tags verif (run.py builds every harness package with -tags verif against /repo via a replace directive)",
        "baseline_off_cmd": "cd /repo && GOFLAGS=-mod=mod go test -json -vet=off -count=1 -timeout 25m ./...",
        "source_commits": HOOK_COMMITS,
        "add_only": True,
    },
    "engines": [{
        "name": "rapid-harness",
        "path": "/verif/harness",
        "serves_properties": [c["property_id"] for c in checks],
        "kind_free_text": "Go module using pgregory.net/rapid v1.3.0 generators (stateful mode for histories), explicit reference models/oracles in harness/ref, in-process and real-client transports; run.py shards by seed and merges evidence",
    }],
    "checks": checks,
    "notes": "Exit codes of every command: 0 held, 1 violation (VIOLATION line), 2 check broken/inconclusive. KNOWN_FINDINGS.txt lists genuine defects (known:/fixed:).",
    "not_applicable": na,
}
json.dump(m, open(os.path.join(ROOT, "MANIFEST.json"), "w"), indent=1)
print("wrote MANIFEST.json: %d checks, %d not claimed" % (len(checks), len(na)))
try:
    import jsonschema
    jsonschema.validate(m, json.load(open("/root/.vp/MANIFEST.schema.json")))
    print("schema ok")
except ImportError:
    pass
