#!/usr/bin/env python3
"""Driver for the larking property checks.

usage: run.py <property-id> quick|thorough
       run.py <property-id> replay <path>
       run.py build-all

Exit codes: 0 = property held on everything explored (known findings are
printed as KNOWN-FINDING lines), 1 = unlisted violation (a line
"VIOLATION property=<id> replay=<path>" is printed), 2 = the check itself is
broken or inconclusive (build failure, timeout, worker death).
"""
import glob
import hashlib
import json
import os
import re
import shutil
import subprocess
import sys
import time

ROOT = os.path.dirname(os.path.abspath(__file__))
HARNESS = os.path.join(ROOT, "harness")
BUILD = os.path.join(ROOT, ".build")
EVID = os.path.join(ROOT, "evidence")
REPLAYS = os.path.join(ROOT, "replays")
KNOWN = os.path.join(ROOT, "KNOWN_FINDINGS.txt")

sys.path.insert(0, ROOT)
from props import PROPS  # noqa: E402

# Development aid: VERIF_REPO=<dir> checks another copy of larking (e.g. a
# scratch worktree with a seeded change) instead of /repo. Registered
# commands never set it.
ALT_REPO = os.environ.get("VERIF_REPO")
if ALT_REPO:
    ALT_REPO = os.path.abspath(ALT_REPO)
    tag = hashlib.sha1(ALT_REPO.encode()).hexdigest()[:8]
    alt = os.path.join(BUILD, "alt-" + tag + "-%d" % os.getpid())
    shutil.rmtree(alt, ignore_errors=True)
    shutil.copytree(HARNESS, alt, ignore=shutil.ignore_patterns("testdata"))
    gm = open(os.path.join(alt, "go.mod")).read().replace("=> /repo", "=> " + ALT_REPO)
    open(os.path.join(alt, "go.mod"), "w").write(gm)
    HARNESS = alt
    BUILD = os.path.join(BUILD, "altbin-" + tag + "-%d" % os.getpid())
    EVID = os.path.join(BUILD, "evidence")
    import atexit
    atexit.register(lambda: (shutil.rmtree(alt, ignore_errors=True), shutil.rmtree(BUILD, ignore_errors=True)))


def goenv():
    env = dict(os.environ)
    env.update({
        "GOFLAGS": "-mod=mod", "GOPROXY": "off", "GOSUMDB": "off",
        "GOTOOLCHAIN": "local", "CGO_ENABLED": env.get("CGO_ENABLED", "1"),
    })
    return env


def log(*a):
    print(*a, flush=True)


def build(pkg, race):
    os.makedirs(BUILD, exist_ok=True)
    out = os.path.join(BUILD, pkg + (".race" if race else "") + ".test")
    cmd = ["go", "test", "-c", "-tags", "verif", "-vet=off", "-o", out]
    if race:
        cmd.append("-race")
    cmd.append("./" + pkg)
    t0 = time.time()
    p = subprocess.run(cmd, cwd=HARNESS, env=goenv(), stdout=subprocess.PIPE,
                       stderr=subprocess.STDOUT, text=True, errors="replace")
    if p.returncode != 0:
        log("BUILD FAILED (%s):\n%s" % (" ".join(cmd), p.stdout[-6000:]))
        return None
    log("built %s in %.1fs" % (os.path.basename(out), time.time() - t0))
    return out


def known_entries(pid):
    out = []
    if not os.path.exists(KNOWN):
        return out
    for line in open(KNOWN):
        line = line.strip()
        if not line.startswith("known:"):
            continue
        m = re.search(r"property=(\S+)", line)
        s = re.search(r"sig=(\S+)", line)
        if m and s and m.group(1) == pid:
            rest = line.split("sig=" + s.group(1), 1)[1].strip()
            out.append((s.group(1), rest))
    return out


class Shard:
    def __init__(self, name, cmd, env, timeout, want_checks, tests, cwd):
        self.name, self.cmd, self.env, self.timeout = name, cmd, env, timeout
        self.want_checks, self.tests, self.cwd = want_checks, tests, cwd
        self.frag = env["VERIF_FRAG"]
        self.failout = env["VERIF_FAILOUT"]
        self.logpath = env["VERIF_FRAG"] + ".log"
        self.proc = None
        self.t0 = None

    def start(self):
        self.t0 = time.time()
        self.logf = open(self.logpath, "w")
        self.proc = subprocess.Popen(self.cmd, cwd=self.cwd, env=self.env,
                                     stdout=self.logf, stderr=subprocess.STDOUT)

    def wait(self):
        left = self.timeout - (time.time() - self.t0)
        try:
            rc = self.proc.wait(timeout=max(left, 1))
        except subprocess.TimeoutExpired:
            self.proc.kill()
            self.proc.wait()
            rc = "timeout"
        self.logf.close()
        self.rc = rc
        self.output = open(self.logpath, errors="replace").read()
        return rc


def run_shards(shards, par):
    pending = list(shards)
    running = []
    done = []
    while pending or running:
        while pending and len(running) < par:
            s = pending.pop(0)
            s.start()
            running.append(s)
        # wait for the oldest
        s = running.pop(0)
        s.wait()
        done.append(s)
    return done


def main():
    if len(sys.argv) >= 2 and sys.argv[1] == "build-all":
        ok = True
        seen = set()
        for pid, cfg in PROPS.items():
            for st in cfg["stages"]:
                key = (cfg["pkg"], bool(st.get("race")))
                if key in seen:
                    continue
                seen.add(key)
                ok = build(*key) is not None and ok
        sys.exit(0 if ok else 2)

    if len(sys.argv) < 3:
        print(__doc__)
        sys.exit(2)
    pid, mode = sys.argv[1], sys.argv[2]
    if pid not in PROPS:
        log("unknown property", pid)
        sys.exit(2)
    cfg = PROPS[pid]
    seed = int(os.environ.get("VERIF_SEED", "0") or 0)
    t_start = time.time()

    scratch = os.path.join(BUILD, "run-%s-%d" % (pid, os.getpid()))
    shutil.rmtree(scratch, ignore_errors=True)
    os.makedirs(scratch)
    outdir = os.path.join(REPLAYS, "out")
    os.makedirs(outdir, exist_ok=True)

    def base_env(tag):
        env = goenv()
        env["VERIF_KNOWN"] = KNOWN
        env["VERIF_TIER"] = mode if mode in ("quick", "thorough") else "quick"
        env["VERIF_SEED"] = str(seed)
        env["VERIF_FRAG"] = os.path.join(scratch, tag + ".frag.json")
        env["VERIF_FAILOUT"] = os.path.join(scratch, tag + ".fail.json")
        env["GORACE"] = "halt_on_error=1 exitcode=66"
        return env

    # ---- replay mode ------------------------------------------------------
    if mode == "replay":
        path = os.path.abspath(sys.argv[3])
        if open(path, "rb").read(16).startswith(b"go test fuzz"):
            fz = cfg["fuzz"]
            corpus = os.path.join(HARNESS, cfg["pkg"], "testdata", "fuzz", fz["target"])
            os.makedirs(corpus, exist_ok=True)
            name = os.path.basename(path)
            if os.path.dirname(path) != corpus:
                shutil.copy(path, os.path.join(corpus, name))
            p = subprocess.run(["go", "test", "-tags", "verif", "-vet=off", "-run", "^%s$/%s$" % (fz["target"], name),
                                "./" + cfg["pkg"]], cwd=HARNESS, env=base_env("replay"),
                               stdout=subprocess.PIPE, stderr=subprocess.STDOUT, text=True, errors="replace")
            print(p.stdout[-6000:])
            shutil.rmtree(scratch, ignore_errors=True)
            if p.returncode == 0:
                log("replay passed: no violation on this tree")
                sys.exit(0)
            log("VIOLATION property=%s replay=%s" % (pid, path))
            sys.exit(1)
        race = any(st.get("race") for st in cfg["stages"]) and cfg.get("replay_race", False)
        binp = build(cfg["pkg"], race)
        if not binp:
            sys.exit(2)
        env = base_env("replay")
        env["VERIF_REPLAY"] = path
        p = subprocess.run([binp, "-test.run", "^TestReplay$", "-test.v", "-test.timeout", "600s"],
                           env=env, cwd=os.path.join(HARNESS, cfg["pkg"]),
                           stdout=subprocess.PIPE, stderr=subprocess.STDOUT, text=True, errors="replace")
        print(p.stdout[-8000:])
        shutil.rmtree(scratch, ignore_errors=True)
        if p.returncode == 0:
            log("replay passed: no violation on this tree")
            sys.exit(0)
        log("VIOLATION property=%s replay=%s" % (pid, path))
        sys.exit(1)

    if mode not in ("quick", "thorough"):
        print(__doc__)
        sys.exit(2)

    # ---- build ------------------------------------------------------------
    bins = {}
    for st in cfg["stages"]:
        race = bool(st.get("race"))
        if race not in bins:
            b = build(cfg["pkg"], race)
            if not b:
                sys.exit(2)
            bins[race] = b
    pkgdir = os.path.join(HARNESS, cfg["pkg"])
    # rapid replays testdata/rapid first: make sure nothing stale is there.
    shutil.rmtree(os.path.join(pkgdir, "testdata", "rapid"), ignore_errors=True)

    violations = []   # (replay path, text)
    broken = []
    frags = []

    # ---- replay tier ------------------------------------------------------
    rfiles = sorted(glob.glob(os.path.join(REPLAYS, pid, "*.json")))
    for i, rf in enumerate(rfiles):
        env = base_env("replay%d" % i)
        env["VERIF_REPLAY"] = rf
        anybin = bins.get(False) or bins.get(True)
        p = subprocess.run([anybin, "-test.run", "^TestReplay$", "-test.timeout", "600s"], env=env,
                           cwd=pkgdir, stdout=subprocess.PIPE, stderr=subprocess.STDOUT, text=True, errors="replace")
        if p.returncode != 0:
            if "property %s violated" % pid in p.stdout:
                violations.append((rf, p.stdout[-3000:]))
            else:
                broken.append("replay %s: rc=%s\n%s" % (rf, p.returncode, p.stdout[-3000:]))
    log("replay tier: %d files" % len(rfiles))

    # ---- search tier ------------------------------------------------------
    shards = []
    for si, st in enumerate(cfg["stages"]):
        checks, nshard = st[mode]
        if checks <= 0:
            continue
        race = bool(st.get("race"))
        for sh in range(nshard):
            tag = "s%d-%d" % (si, sh)
            env = base_env(tag)
            env["VERIF_SHARD"] = str(sh)
            env["VERIF_NSHARD"] = str(nshard)
            rseed = 1 + seed * 1000 + si * 100 + sh
            timeout = st.get("timeout", {}).get(mode, 900 if mode == "quick" else 5400)
            cmd = [bins[race], "-test.v", "-test.run", st["run"], "-test.timeout", "%ds" % (timeout + 60),
                   "-rapid.checks=%d" % checks, "-rapid.seed=%d" % rseed,
                   "-rapid.shrinktime=%s" % st.get("shrinktime", "20s"), "-rapid.nofailfile"]
            shards.append(Shard(tag, cmd, env, timeout, checks, st["run"], pkgdir))
    par = int(os.environ.get("VERIF_PAR", "16"))
    done = run_shards(shards, par)

    passed_re = re.compile(r"OK, passed (\d+) tests")
    for s in done:
        out = s.output
        if os.path.exists(s.frag):
            frags.append(s.frag)
        if s.rc == 0:
            got = [int(x) for x in passed_re.findall(out)]
            if got and min(got) < s.want_checks:
                broken.append("shard %s: rapid ran %s < %d requested checks (deadline?)" % (s.name, got, s.want_checks))
            continue
        if s.rc == "timeout":
            if os.path.exists(s.failout):
                # the property saved a failing case (it only does so when its oracle reported a violation) and
                # the deadline hit while rapid was still shrinking it: a verdict, with the case as it stood
                h = hashlib.sha1(open(s.failout, "rb").read()).hexdigest()[:10]
                dst = os.path.join(outdir, "%s-%s.json" % (pid, h))
                shutil.copy(s.failout, dst)
                violations.append((dst, "(shard %s hit its deadline while shrinking)\n%s" % (s.name, out[-3000:])))
                continue
            broken.append("shard %s timed out after %ds\n%s" % (s.name, s.timeout, out[-2000:]))
            continue
        if os.path.exists(s.failout) and ("property %s violated" % pid) in out:
            h = hashlib.sha1(open(s.failout, "rb").read()).hexdigest()[:10]
            dst = os.path.join(outdir, "%s-%s.json" % (pid, h))
            shutil.copy(s.failout, dst)
            violations.append((dst, out[-3000:]))
        elif "DATA RACE" in out or s.rc == 66:
            # race detector report: replay is the log itself
            h = hashlib.sha1(out.encode()).hexdigest()[:10]
            dst = os.path.join(outdir, "%s-race-%s.log" % (pid, h))
            open(dst, "w").write(out)
            violations.append((dst, out[-3000:]))
        else:
            broken.append("shard %s: rc=%s without a recorded violation\n%s" % (s.name, s.rc, out[-3000:]))

    # ---- native fuzzing (thorough tier only; cannot be seeded) -------------
    fuzz_info = None
    fz = cfg.get("fuzz")
    if fz and mode == "thorough" and not violations:
        corpus = os.path.join(pkgdir, "testdata", "fuzz", fz["target"])
        before = set(os.listdir(corpus)) if os.path.isdir(corpus) else set()
        secs = int(os.environ.get("VERIF_FUZZ_SECONDS", fz["seconds"]))
        cmd = ["go", "test", "-tags", "verif", "-vet=off", "-run", "^$", "-fuzz", "^%s$" % fz["target"],
               "-fuzztime", "%ds" % secs, "./" + cfg["pkg"]]
        env = base_env("fuzz")
        t0 = time.time()
        try:
            p = subprocess.run(cmd, cwd=HARNESS, env=env, stdout=subprocess.PIPE, stderr=subprocess.STDOUT,
                               text=True, errors="replace", timeout=secs + 600)
            out, rc = p.stdout, p.returncode
        except subprocess.TimeoutExpired as e:
            out, rc = (e.stdout or ""), "timeout"
        after = set(os.listdir(corpus)) if os.path.isdir(corpus) else set()
        execs = re.findall(r"execs: (\d+)", out)
        fuzz_info = {"target": fz["target"], "seconds": secs, "execs": int(execs[-1]) if execs else 0,
                     "new_interesting": re.findall(r"new interesting: (\d+)", out)[-1:] or ["0"]}
        new = sorted(after - before)
        if rc == "timeout":
            broken.append("native fuzz run timed out")
        elif rc != 0 and new:
            for n in new:
                violations.append((os.path.join(corpus, n), out[-3000:]))
        elif rc != 0:
            broken.append("native fuzz run failed without a crasher:\n" + out[-3000:])
        log("native fuzz %s: %s execs in %.0fs, rc=%s" % (fz["target"], fuzz_info["execs"], time.time() - t0, rc))

    # ---- merge evidence ---------------------------------------------------
    ev_n, nontriv, distinct = 0, 0, set()
    classes, counters, khits, samples, exhaustive = {}, {}, {}, [], {}
    for f in frags:
        try:
            d = json.load(open(f))
        except Exception as e:  # noqa
            broken.append("bad fragment %s: %s" % (f, e))
            continue
        ev_n += d["evaluations"]
        nontriv += d["nontrivial"]
        distinct.update(d.get("distinct") or [])
        for k, v in d["classes"].items():
            classes[k] = classes.get(k, 0) + v
        for k, v in d["counters"].items():
            counters[k] = counters.get(k, 0) + v
        for k, v in d["known_hits"].items():
            khits[k] = khits.get(k, 0) + v
        for k, v in d.get("exhaustive", {}).items():
            exhaustive[k] = exhaustive.get(k, True) and v
        for smp in (d.get("samples") or []):
            if len(samples) < 12:
                samples.append(smp)
    wall = time.time() - t_start
    kn = known_entries(pid)
    evidence = {
        "property_id": pid,
        "tier": mode,
        "seed": seed,
        "level": "exploration",
        "coverage": {
            "evaluations": ev_n,
            "nontrivial": nontriv,
            "distinct_nontrivial": len(distinct),
            "rule": cfg["rule"],
            "samples": samples,
            "classes": dict(sorted(classes.items())),
            "counters": dict(sorted(counters.items())),
            "known_finding_hits": khits,
            "exhaustive_subspaces": sorted(k for k, v in exhaustive.items() if v),
            "replayed_regressions": len(rfiles),
            "shards": len(shards),
            "native_fuzz": fuzz_info,
            "exhaustive": False,
        },
        "assumptions": cfg["assumptions"],
        "wall_s": round(wall, 2),
        "violations": len(violations),
    }
    os.makedirs(EVID, exist_ok=True)
    with open(os.path.join(EVID, pid + ".json"), "w") as f:
        json.dump(evidence, f, indent=1, sort_keys=False)
        f.write("\n")

    log("%s %s seed=%d: evaluations=%d nontrivial=%d distinct_nontrivial=%d wall=%.1fs" % (
        pid, mode, seed, ev_n, nontriv, len(distinct), wall))
    for sig, what in kn:
        log("KNOWN-FINDING: property=%s sig=%s %s (hits this run: %d)" % (pid, sig, what, khits.get(sig, 0)))

    keep = os.environ.get("VERIF_KEEP_SCRATCH")
    if violations:
        for path, text in violations:
            log(text)
        for path in sorted(set(p for p, _ in violations)):
            log("VIOLATION property=%s replay=%s" % (pid, path))
        if not keep:
            shutil.rmtree(scratch, ignore_errors=True)
        sys.exit(1)
    if broken:
        for b in broken:
            log("BROKEN: " + b)
        if not keep:
            shutil.rmtree(scratch, ignore_errors=True)
        sys.exit(2)
    if ev_n == 0:
        log("BROKEN: no evaluations recorded")
        sys.exit(2)
    if not keep:
        shutil.rmtree(scratch, ignore_errors=True)
    sys.exit(0)


if __name__ == "__main__":
    try:
        main()
    except SystemExit:
        raise
    except BaseException:  # a crash of the driver is "broken" (2), never a verdict (1)
        import traceback
        traceback.print_exc()
        sys.exit(2)
